//go:build verif

package geoip

// EXT9 (extension, not a listed property): the GeoIP database, internal/geoip.
//
// The harness is a stepper: a world is a real *File with small real MaxMind
// databases (written by the minimal MMDB writer below, or the databases the
// repository ships) and a list of steps -- Put (the environment replaces a
// database file by another version), the steps of a Refresh stopped at the
// gates the overlay puts in front of every f.mu.Lock() of file.go, Data and
// SubnetByLocation calls at the quiescent points in between.  Every step is
// recorded with what the real code answered and what the File holds afterwards
// (loaded database versions, derived maps, cache sizes); TLC (TraceGeoIP.tla)
// decides.  The content of every database version is recorded by an
// independent reader (maxminddb.Reader.Networks) into a second file that the
// trace specification reads as the constant Files.

import (
	"bytes"
	"context"
	"encoding/binary"
	"encoding/json"
	"fmt"
	"math/rand"
	"net"
	"net/netip"
	"os"
	"path/filepath"
	"runtime"
	"sort"
	"strings"
	"sync"
	"sync/atomic"
	"testing"
	"time"

	"github.com/AdguardTeam/AdGuardDNS/internal/agdcache"
	"github.com/AdguardTeam/golibs/container"
	"github.com/AdguardTeam/golibs/logutil/slogutil"
	"github.com/AdguardTeam/golibs/netutil"
	"github.com/oschwald/maxminddb-golang"
)

// ---------------------------------------------------------------- MMDB writer

type e9Net struct {
	B    []int  `json:"b"`
	N    int    `json:"n"`
	ASN  int64  `json:"asn"`
	AStr bool   `json:"astr"` // the number is stored as a string (a scan cannot decode it)
	Ctry string `json:"ctry"`
	Cont string `json:"cont"`
	Sub  string `json:"sub"`
	Sub2 string `json:"sub2,omitempty"` // writer only: a second (less significant) subdivision
}

type e9FileDesc struct {
	Kind string  `json:"kind"` // "A" (ASN) or "C" (country)
	Mode string  `json:"mode"` // ok, shipped, missing, garbage, empty, badmeta
	Path string  `json:"path,omitempty"`
	Nets []e9Net `json:"nets"`
}

type e9Trie struct {
	child [2]*e9Trie
	leaf  bool
	data  int // index of the record, -1 = empty
	id    int
}

func e9Leaf(d int) *e9Trie { return &e9Trie{leaf: true, data: d} }

func e9Bits(b []int, n int) (bits []int) {
	pre := 0
	if len(b) == 4 {
		pre = 96
	}
	bits = make([]int, 0, pre+n)
	for i := 0; i < pre; i++ {
		bits = append(bits, 0)
	}
	for i := 0; i < n; i++ {
		bits = append(bits, (b[i/8]>>(7-i%8))&1)
	}
	return bits
}

func (t *e9Trie) insert(bits []int, d int) {
	cur := t
	for i, bit := range bits {
		if i == len(bits)-1 {
			cur.child[bit] = e9Leaf(d)
			return
		}
		c := cur.child[bit]
		if c.leaf {
			n := &e9Trie{}
			n.child[0], n.child[1] = e9Leaf(c.data), e9Leaf(c.data)
			cur.child[bit] = n
			c = n
		}
		cur = c
	}
}

func e9Ctrl(typ, size int) (b []byte) {
	var sz []byte
	sbits := size
	switch {
	case size < 29:
	case size < 29+256:
		sbits, sz = 29, []byte{byte(size - 29)}
	default:
		sbits, sz = 30, []byte{byte((size - 285) >> 8), byte(size - 285)}
	}
	if typ <= 7 {
		b = []byte{byte(typ<<5 | sbits)}
	} else {
		b = []byte{byte(sbits), byte(typ - 7)}
	}
	return append(b, sz...)
}

func e9Str(s string) []byte { return append(e9Ctrl(2, len(s)), s...) }

func e9Uint(typ int, v uint64) []byte {
	var raw [8]byte
	binary.BigEndian.PutUint64(raw[:], v)
	i := 0
	for i < 8 && raw[i] == 0 {
		i++
	}
	return append(e9Ctrl(typ, 8-i), raw[i:]...)
}

// e9Map encodes a map from already encoded values; keys are written in sorted order.
func e9Map(m map[string][]byte) []byte {
	ks := make([]string, 0, len(m))
	for k := range m {
		ks = append(ks, k)
	}
	sort.Strings(ks)
	b := e9Ctrl(7, len(ks))
	for _, k := range ks {
		b = append(b, e9Str(k)...)
		b = append(b, m[k]...)
	}
	return b
}

func e9Record(kind string, n e9Net) []byte {
	if kind == "A" {
		m := map[string][]byte{"isp": e9Str(fmt.Sprintf("isp-%d", n.ASN))}
		if n.AStr {
			m["autonomous_system_number"] = e9Str(fmt.Sprint(n.ASN))
		} else if n.ASN != 0 {
			m["autonomous_system_number"] = e9Uint(6, uint64(n.ASN))
		}
		return e9Map(m)
	}
	m := map[string][]byte{}
	if n.Cont != "" {
		m["continent"] = e9Map(map[string][]byte{"code": e9Str(n.Cont)})
	}
	if n.Ctry != "" {
		m["country"] = e9Map(map[string][]byte{"iso_code": e9Str(n.Ctry)})
	}
	if n.Sub != "" {
		subs := append(e9Ctrl(11, 1), e9Map(map[string][]byte{"iso_code": e9Str(n.Sub)})...)
		if n.Sub2 != "" {
			subs = append(e9Ctrl(11, 2), e9Map(map[string][]byte{"iso_code": e9Str(n.Sub)})...)
			subs = append(subs, e9Map(map[string][]byte{"iso_code": e9Str(n.Sub2)})...)
		}
		m["subdivisions"] = subs
	}
	return e9Map(m)
}

// e9WriteMMDB renders a database of format 2.0 (IPv6 tree, 24-bit records, IPv4 below ::/96).
func e9WriteMMDB(kind string, nets []e9Net, id int) []byte {
	root := &e9Trie{}
	root.child[0], root.child[1] = e9Leaf(-1), e9Leaf(-1)
	idx := make([]int, len(nets))
	for i := range idx {
		idx[i] = i
	}
	sort.SliceStable(idx, func(a, b int) bool { return nets[idx[a]].N < nets[idx[b]].N })
	for _, i := range idx {
		root.insert(e9Bits(nets[i].B, nets[i].N), i)
	}
	// the data section holds the records the tree points to, each once
	var data []byte
	offs := map[string]int{}
	recOff := make([]int, len(nets))
	var walk func(n *e9Trie)
	walk = func(n *e9Trie) {
		for _, c := range n.child {
			if !c.leaf {
				walk(c)
			} else if c.data >= 0 {
				rec := e9Record(kind, nets[c.data])
				o, ok := offs[string(rec)]
				if !ok {
					o = len(data)
					offs[string(rec)] = o
					data = append(data, rec...)
				}
				recOff[c.data] = o
			}
		}
	}
	walk(root)
	var nodes []*e9Trie
	queue := []*e9Trie{root}
	for len(queue) > 0 {
		n := queue[0]
		queue = queue[1:]
		n.id = len(nodes)
		nodes = append(nodes, n)
		for _, c := range n.child {
			if !c.leaf {
				queue = append(queue, c)
			}
		}
	}
	nc := len(nodes)
	var out bytes.Buffer
	for _, n := range nodes {
		for _, c := range n.child {
			v := nc
			if !c.leaf {
				v = c.id
			} else if c.data >= 0 {
				v = nc + 16 + recOff[c.data]
			}
			out.Write([]byte{byte(v >> 16), byte(v >> 8), byte(v)})
		}
	}
	out.Write(make([]byte, 16))
	out.Write(data)
	out.WriteString("\xab\xcd\xefMaxMind.com")
	out.Write(e9Map(map[string][]byte{
		"binary_format_major_version": e9Uint(5, 2),
		"binary_format_minor_version": e9Uint(5, 0),
		"build_epoch":                 e9Uint(9, uint64(id)),
		"database_type":               e9Str(fmt.Sprintf("EXT9-%s-%d", kind, id)),
		"description":                 e9Map(map[string][]byte{"en": e9Str("ext9 synthetic database")}),
		"ip_version":                  e9Uint(5, 6),
		"languages":                   append(e9Ctrl(11, 1), e9Str("en")...),
		"node_count":                  e9Uint(6, uint64(nc)),
		"record_size":                 e9Uint(5, 24),
	}))
	return out.Bytes()
}

// ---------------------------------------------------------------- reference reader

func e9Key(r *maxminddb.Reader) string {
	return fmt.Sprintf("%s/%d", r.Metadata.DatabaseType, r.Metadata.BuildEpoch)
}

func e9IPBytes(ip net.IP) (b []int) {
	if v4 := ip.To4(); v4 != nil && len(ip) == 4 {
		ip = v4
	}
	for _, x := range ip {
		b = append(b, int(x))
	}
	return b
}

// e9Dump lists the networks of a database as the library's traversal returns them.
func e9Dump(t testing.TB, raw []byte) (nets []e9Net) {
	r, err := maxminddb.FromBytes(raw)
	if err != nil {
		t.Fatalf("reference reader: %v", err)
	}
	it := r.Networks(maxminddb.SkipAliasedNetworks)
	for it.Next() {
		var rec map[string]any
		nw, nerr := it.Network(&rec)
		if nerr != nil {
			t.Fatalf("reference reader: %v", nerr)
		}
		ones, _ := nw.Mask.Size()
		n := e9Net{B: e9IPBytes(nw.IP), N: ones}
		switch v := rec["autonomous_system_number"].(type) {
		case nil:
		case string:
			n.AStr = true
		default:
			fmt.Sscan(fmt.Sprint(v), &n.ASN)
		}
		if m, ok := rec["country"].(map[string]any); ok {
			n.Ctry, _ = m["iso_code"].(string)
		}
		if m, ok := rec["continent"].(map[string]any); ok {
			n.Cont, _ = m["code"].(string)
		}
		if l, ok := rec["subdivisions"].([]any); ok && len(l) > 0 {
			if m, ok2 := l[0].(map[string]any); ok2 {
				n.Sub, _ = m["iso_code"].(string)
			}
		}
		nets = append(nets, n)
	}
	if it.Err() != nil {
		t.Fatalf("reference reader: %v", it.Err())
	}
	return nets
}

// ---------------------------------------------------------------- gates

type e9CtxKey struct{}

type e9Arrival struct {
	r, site string
	release chan struct{}
}

type e9Gates struct {
	arr  chan e9Arrival
	free atomic.Bool // gates open (concurrent run)
}

var e9G *e9Gates

func e9Hook(ctx context.Context, site string) {
	g := e9G
	if g == nil || g.free.Load() {
		return
	}
	r, _ := ctx.Value(e9CtxKey{}).(string)
	a := e9Arrival{r: r, site: site}
	if strings.HasPrefix(site, "lock:") {
		a.release = make(chan struct{})
	}
	g.arr <- a
	if a.release != nil {
		<-a.release
	}
}

// ---------------------------------------------------------------- world

type e9Loc struct {
	Nil  bool   `json:"nil"`
	Ctry string `json:"ctry"`
	Cont string `json:"cont"`
	Sub  string `json:"sub"`
	ASN  int64  `json:"asn"`
}

func e9LocOf(l *Location) e9Loc {
	if l == nil {
		return e9Loc{Nil: true}
	}
	return e9Loc{Ctry: string(l.Country), Cont: string(l.Continent), Sub: l.TopSubdivision, ASN: int64(l.ASN)}
}

type e9Pfx struct {
	B []int `json:"b"`
	N int   `json:"n"`
}

func e9PfxOf(p netip.Prefix) e9Pfx {
	if !p.IsValid() {
		return e9Pfx{B: []int{}, N: -1}
	}
	return e9Pfx{B: e9IPBytes(net.IP(p.Addr().AsSlice())), N: p.Bits()}
}

type e9MapEnt struct {
	ASN  int64  `json:"asn"`
	Ctry string `json:"ctry"`
	Sub  string `json:"sub"`
	P    e9Pfx  `json:"p"`
}

type e9Step struct {
	A    string `json:"a"`
	Kind string `json:"kind"`
	V    int    `json:"v"` // world-local file index (1-based)
	R    string `json:"r"`
	Host string `json:"host"`
	IP   []int  `json:"ip"`
	Zero bool   `json:"zero"`
	Zone string `json:"zone"`
	L    e9Loc  `json:"l"`
	LP   int    `json:"lp"` // pointer id of an earlier Data answer to hand in (0: a fresh Location)
	Fam  int    `json:"fam"`
	Cnt  int    `json:"cnt"` // AutoData / AutoSubnet: how many generated steps
}

type e9World struct {
	ID      string       `json:"id"`
	Src     string       `json:"src"`
	HostCap int          `json:"hostcap"`
	IPCap   int          `json:"ipcap"`
	Tops    [][]any      `json:"tops"`
	AllTop  []int64      `json:"alltop"`
	Default bool         `json:"default"` // the production tables DefaultTopASNs / DefaultCountryTopASNs
	Files   []e9FileDesc `json:"files"`
	Disk0   []int        `json:"disk0"` // world-local indices of the versions on disk at the start (A, C), 0 = none
	Steps   []e9Step     `json:"steps"`
}

// e9Event is one line of the trace; every kind of event carries only its own fields.
type e9Event map[string]any

type e9File struct {
	id    int
	desc  e9FileDesc
	raw   []byte
	nets  []e9Net
	index map[string]int // "b/n" -> 1-based index
	ref   *maxminddb.Reader
}

type e9Reg struct {
	t     testing.TB
	fout  *os.File
	files []*e9File // global, id = index+1
	byKey map[string]int
}

func (rg *e9Reg) add(d e9FileDesc) *e9File {
	f := &e9File{id: len(rg.files) + 1, desc: d, index: map[string]int{}}
	switch d.Mode {
	case "ok":
		f.raw = e9WriteMMDB(d.Kind, d.Nets, f.id)
	case "shipped":
		b, err := os.ReadFile(filepath.Join("testdata", d.Path))
		if err != nil {
			rg.t.Fatal(err)
		}
		f.raw = b
	case "garbage":
		f.raw = bytes.Repeat([]byte("this is not a database\n"), 40)
	case "empty":
		f.raw = []byte{}
	case "badmeta":
		good := e9WriteMMDB(d.Kind, []e9Net{{B: []int{10, 0, 0, 0}, N: 8, ASN: 1, Ctry: "US"}}, f.id)
		i := bytes.LastIndex(good, []byte("\xab\xcd\xefMaxMind.com"))
		f.raw = good[i:] // metadata only: the tree it announces is not there
	case "missing":
	default:
		rg.t.Fatalf("file mode %q", d.Mode)
	}
	if d.Mode == "ok" || d.Mode == "shipped" {
		r, err := maxminddb.FromBytes(f.raw)
		if err != nil {
			rg.t.Fatalf("written database unreadable: %v", err)
		}
		if d.Mode == "ok" {
			if verr := r.Verify(); verr != nil {
				rg.t.Fatalf("written database does not verify: %v", verr)
			}
		}
		f.ref = r
		f.nets = e9Dump(rg.t, f.raw)
		for i, n := range f.nets {
			f.index[fmt.Sprint(n.B, "/", n.N)] = i + 1
		}
		rg.byKey[e9Key(r)+"/"+d.Kind] = f.id
		if d.Mode == "shipped" {
			rg.byKey[e9Key(r)] = f.id
		}
	}
	line := map[string]any{"ev": "File", "ver": f.id, "kind": d.Kind, "mode": d.Mode, "nets": f.nets}
	if f.nets == nil {
		line["nets"] = []e9Net{}
	}
	b, _ := json.Marshal(line)
	rg.fout.Write(append(b, '\n'))
	rg.files = append(rg.files, f)
	return f
}

type e9Ptr struct {
	l    *Location
	snap Location
	id   int
}

type e9Run struct {
	t      testing.TB
	rg     *e9Reg
	w      *e9World
	out    *vhOut
	dir    string
	f      *File
	vers   []*e9File
	ptrs   map[*Location]*e9Ptr
	byID   map[int]*e9Ptr
	order  []*e9Ptr
	refr    map[string]*e9Refresh
	blocked map[string]*e9Refresh
	shared map[string]*e9File // shipped files are registered once per run
}

// e9Settled: Refresh has returned, or stands in front of the critical sections of both goroutines, or in
// front of the one that swaps the databases.
func e9Settled(rf *e9Refresh) bool {
	_, l := rf.pending["lock:loc"]
	_, c := rf.pending["lock:ctry"]
	_, d := rf.pending["lock:db"]
	return rf.ret || (l && c) || d
}

type e9Refresh struct {
	mayBlock, blocked bool // RStart: waiting for another refresh of the same File is an outcome
	swapped           int
	done    chan error
	pending map[string]e9Arrival
	extra   []string
	ret     bool
	err     error
}

func e9ErrClass(err error) string {
	if err == nil {
		return ""
	}
	s := err.Error()
	for _, c := range []string{"reading asn geoip", "reading country geoip", "location subnet data", "country subnet data",
		"converting continent", "converting country", "looking up asn", "looking up country"} {
		if strings.Contains(s, c) {
			return c
		}
	}
	return "other"
}

func (x *e9Run) verOf(r *maxminddb.Reader, kind string) int {
	if r == nil {
		return 0
	}
	if id, ok := x.rg.byKey[e9Key(r)+"/"+kind]; ok {
		return id
	}
	if id, ok := x.rg.byKey[e9Key(r)]; ok {
		return id
	}
	return -1
}

func e9LocEnts(m locationSubnets) (l []e9MapEnt) {
	l = []e9MapEnt{}
	for k, p := range m {
		l = append(l, e9MapEnt{ASN: int64(k.asn), Ctry: string(k.country), Sub: k.topSubdivision, P: e9PfxOf(p)})
	}
	sort.Slice(l, func(a, b int) bool { return fmt.Sprint(l[a]) < fmt.Sprint(l[b]) })
	return l
}

func e9CtryEnts(m countrySubnets) (l []e9MapEnt) {
	l = []e9MapEnt{}
	for k, p := range m {
		l = append(l, e9MapEnt{Ctry: string(k), P: e9PfxOf(p)})
	}
	sort.Slice(l, func(a, b int) bool { return fmt.Sprint(l[a]) < fmt.Sprint(l[b]) })
	return l
}

type e9Obs struct {
	DBA, DBC               int
	Loc4, Loc6, C4, C6     []e9MapEnt
}

// obs reads what the File holds: versions in force, cache sizes and, if asked, the four derived maps.
func (x *e9Run) obs(maps bool) (m map[string]any, o e9Obs) {
	f := x.f
	f.mu.RLock()
	defer f.mu.RUnlock()
	o.DBA, o.DBC = x.verOf(f.asn, "A"), x.verOf(f.country, "C")
	m = map[string]any{"dba": o.DBA, "dbc": o.DBC, "iplen": f.ipCache.Len(), "hostlen": f.hostCache.Len(), "maps": maps}
	if maps {
		o.Loc4, o.Loc6 = e9LocEnts(f.ipv4LocationSubnets), e9LocEnts(f.ipv6LocationSubnets)
		o.C4, o.C6 = e9CtryEnts(f.ipv4CountrySubnets), e9CtryEnts(f.ipv6CountrySubnets)
		nilm := []string{}
		for n, isnil := range map[string]bool{"loc4": f.ipv4LocationSubnets == nil, "loc6": f.ipv6LocationSubnets == nil,
			"c4": f.ipv4CountrySubnets == nil, "c6": f.ipv6CountrySubnets == nil} {
			if isnil {
				nilm = append(nilm, n)
			}
		}
		sort.Strings(nilm)
		m["loc4"], m["loc6"], m["c4"], m["c6"], m["nilmaps"] = o.Loc4, o.Loc6, o.C4, o.C6, nilm
	}
	return m, o
}

// chg lists the answers of earlier Data calls whose content is no longer what was returned.
func (x *e9Run) chg() (c [][]any) {
	c = [][]any{}
	for _, p := range x.order {
		if *p.l != p.snap {
			c = append(c, []any{p.id, e9LocOf(&p.snap), e9LocOf(p.l)})
		}
	}
	return c
}

func (x *e9Run) ptrID(l *Location) int {
	if l == nil {
		return 0
	}
	if p, ok := x.ptrs[l]; ok {
		return p.id
	}
	p := &e9Ptr{l: l, snap: *l, id: len(x.order) + 1}
	x.ptrs[l], x.byID[p.id] = p, p
	x.order = append(x.order, p)
	return p.id
}

func (x *e9Run) put(kind string, f *e9File) {
	p := filepath.Join(x.dir, kind+".mmdb")
	os.Remove(p)
	if f.desc.Mode == "missing" {
		return
	}
	if err := os.WriteFile(p, f.raw, 0o644); err != nil {
		x.t.Fatal(err)
	}
}

const e9Wait = 20 * time.Second

// e9RefreshBlocked: some goroutine is parked on a mutex inside File.Refresh (a File that serialises its
// refreshes, asked to start one while another one stands at a gate).  A state, not a time-out: the goroutine
// stays parked until the harness lets the other refresh go on.
func e9RefreshBlocked() bool {
	buf := make([]byte, 1<<20)
	n := runtime.Stack(buf, true)
	for _, g := range strings.Split(string(buf[:n]), "\n\n") {
		hdr, _, _ := strings.Cut(g, "\n")
		if strings.Contains(g, "geoip.(*File).Refresh") && !strings.Contains(g, "e9Hook") &&
			!strings.Contains(g, "sync.(*WaitGroup).Wait") &&
			(strings.Contains(g, "sync.(*Mutex).Lock") || strings.Contains(g, "sync.(*RWMutex).Lock")) &&
			(strings.Contains(hdr, "Mutex.Lock") || strings.Contains(hdr, "semacquire")) {
			return true
		}
	}
	return false
}

// collect takes arrivals until cond holds for refresh r.
func (x *e9Run) collect(r string, cond func(rf *e9Refresh) bool) {
	rf := x.refr[r]
	deadline := time.After(e9Wait)
	tick := time.NewTicker(2 * time.Millisecond)
	defer tick.Stop()
	for !cond(rf) {
		select {
		case a := <-e9G.arr:
			o := x.refr[a.r]
			if o == nil {
				o = x.blocked[a.r]
			}
			if o == nil {
				x.t.Fatalf("gate arrival %q of an unknown refresh %q", a.site, a.r)
			}
			if a.release != nil {
				if _, dup := o.pending[a.site]; dup {
					x.t.Fatalf("two goroutines of refresh %s at gate %s", a.r, a.site)
				}
				o.pending[a.site] = a
			} else {
				o.extra = append(o.extra, a.site)
			}
		case err := <-rf.done:
			rf.ret, rf.err = true, err
		case <-tick.C:
			if rf.mayBlock && len(rf.pending) == 0 && e9RefreshBlocked() {
				rf.blocked = true
				return
			}
		case <-deadline:
			x.t.Fatalf("refresh %s: no progress (pending %v, returned %v)", r, rf.pending, rf.ret)
		}
	}
}

func (x *e9Run) release(r, site string) {
	rf := x.refr[r]
	a, ok := rf.pending["lock:"+site]
	if !ok {
		x.t.Fatalf("refresh %s is not at gate %s (pending %v): the behaviour cannot be replayed", r, site, rf.pending)
	}
	delete(rf.pending, "lock:"+site)
	close(a.release)
	x.collect(r, func(rf *e9Refresh) bool {
		for _, e := range rf.extra {
			if e == "unlocked:"+site {
				return true
			}
		}
		return false
	})
	var rest []string
	for _, e := range rf.extra {
		if e != "unlocked:"+site {
			rest = append(rest, e)
		}
	}
	rf.extra = rest
}

func e9Addr(ip []int, zone string) netip.Addr {
	b := make([]byte, len(ip))
	for i, v := range ip {
		b[i] = byte(v)
	}
	a, ok := netip.AddrFromSlice(b)
	if !ok {
		panic(fmt.Sprint("bad address ", ip))
	}
	if zone != "" {
		a = a.WithZone(zone)
	}
	return a
}

// hint is the index of the network of database f that holds ip, by the reference reader.
func (x *e9Run) hint(ver int, a netip.Addr) int {
	if ver <= 0 || ver > len(x.rg.files) {
		return 0
	}
	f := x.rg.files[ver-1]
	if f.ref == nil {
		return 0
	}
	if a.Is4In6() {
		a = netip.AddrFrom4(a.As4())
	}
	var rec map[string]any
	nw, ok, err := f.ref.LookupNetwork(net.IP(a.AsSlice()), &rec)
	if err != nil || !ok {
		return 0
	}
	ones, _ := nw.Mask.Size()
	ip := nw.IP
	if a.Is4() {
		ip = ip.To4()
	} else if ones >= 96 && ip.To4() == nil && bytes.Equal(ip[:12], make([]byte, 12)) {
		ip, ones = ip[12:], ones-96
	}
	return f.index[fmt.Sprint(e9IPBytes(ip), "/", ones)]
}

func e9ScanErrs(err error) (lerr, cerr bool) {
	if err == nil {
		return false, false
	}
	return strings.Contains(err.Error(), "location subnet data"), strings.Contains(err.Error(), "country subnet data")
}

func (x *e9Run) step(i int, s e9Step) {
	ev := e9Event{"ev": s.A}
	maps := false
	retFields := func(rf *e9Refresh) {
		ev["res"], ev["err"] = "ret", e9ErrClass(rf.err)
		ev["lerr"], ev["cerr"] = e9ScanErrs(rf.err)
		if rf.err != nil {
			ev["conc"] = rf.err.Error()
		}
	}
	gatedFields := func(rf *e9Refresh) {
		ev["res"], ev["err"], ev["lerr"], ev["cerr"] = "gated", "", false, false
		at := []string{}
		for k := range rf.pending {
			at = append(at, k)
		}
		sort.Strings(at)
		ev["at"] = at
	}
	switch s.A {
	case "Put":
		if s.V < 1 || s.V > len(x.vers) {
			x.t.Fatalf("Put of version %d", s.V)
		}
		f := x.vers[s.V-1]
		x.put(s.Kind, f)
		ev["kind"], ev["v"] = s.Kind, f.id
	case "RStart":
		if x.refr[s.R] != nil {
			x.t.Fatalf("refresh %s is already running", s.R)
		}
		rf := &e9Refresh{done: make(chan error, 1), pending: map[string]e9Arrival{}}
		x.refr[s.R] = rf
		ctx := context.WithValue(context.Background(), e9CtxKey{}, s.R)
		go func() { rf.done <- x.f.Refresh(ctx) }()
		rf.mayBlock = len(x.refr) > 1
		x.collect(s.R, e9Settled)
		rf.mayBlock = false
		ev["r"] = s.R
		if rf.blocked {
			// the File makes this refresh wait for the one in progress: the rest of the world goes on without it
			ev["res"], ev["err"], ev["lerr"], ev["cerr"] = "blocked", "", false, false
			x.blocked[s.R] = rf
			delete(x.refr, s.R)
		} else if rf.ret {
			retFields(rf)
			delete(x.refr, s.R)
		} else {
			gatedFields(rf)
		}
		maps = true
	case "RSwapLoc", "RSwapCtry":
		if x.refr[s.R] == nil {
			return // the refresh has returned already (a failed one that publishes nothing)
		}
		site := map[string]string{"RSwapLoc": "loc", "RSwapCtry": "ctry"}[s.A]
		rf := x.refr[s.R]
		if _, ok := rf.pending["lock:"+site]; ok {
			x.release(s.R, site)
			rf.swapped++
			if rf.swapped == 2 {
				// both goroutines are through: Refresh itself runs on; wait until it stands at its next gate or returns
				x.collect(s.R, func(rf *e9Refresh) bool { return rf.ret || len(rf.pending) > 0 })
			}
		}
		// (no gate of that name: a File that publishes its maps together with the databases)
		ev["r"] = s.R
		maps = true
	case "RJoin":
		rf := x.refr[s.R]
		if rf == nil {
			return
		}
		x.collect(s.R, func(rf *e9Refresh) bool { return rf.ret || len(rf.pending) > 0 })
		ev["r"] = s.R
		if rf.ret {
			retFields(rf)
			delete(x.refr, s.R)
		} else {
			gatedFields(rf)
		}
		maps = true
	case "RSwapDB":
		rf := x.refr[s.R]
		if rf == nil {
			return
		}
		if _, ok := rf.pending["lock:db"]; !ok {
			x.t.Fatalf("refresh %s is not in front of the swap of the databases (pending %v)", s.R, rf.pending)
		}
		x.release(s.R, "db")
		// Refresh must now return; a critical section that follows is a visible intermediate state
		mids := []any{}
		for !rf.ret {
			x.collect(s.R, func(rf *e9Refresh) bool { return rf.ret || len(rf.pending) > 0 })
			for site := range rf.pending {
				m, _ := x.obs(true)
				m["at"] = site
				mids = append(mids, m)
				x.release(s.R, strings.TrimPrefix(site, "lock:"))
			}
		}
		ev["mids"] = mids
		ev["r"] = s.R
		retFields(rf)
		delete(x.refr, s.R)
		maps = true
	case "Data":
		var a netip.Addr
		if !s.Zero {
			a = e9Addr(s.IP, s.Zone)
		}
		_, o0 := x.obs(false)
		l, err := x.f.Data(s.Host, a)
		ip := s.IP
		if ip == nil {
			ip = []int{}
		}
		ev["host"], ev["ip"], ev["zero"], ev["zone"] = s.Host, ip, s.Zero, s.Zone
		ev["got"], ev["err"], ev["p"] = e9LocOf(l), e9ErrClass(err), x.ptrID(l)
		ev["ha"], ev["hc"] = 0, 0
		if !s.Zero {
			ev["ha"], ev["hc"] = x.hint(o0.DBA, a), x.hint(o0.DBC, a)
			ev["conc"] = a.String()
		}
	case "Subnet":
		var l *Location
		if s.LP > 0 {
			if p := x.byID[s.LP]; p != nil {
				l = p.l
			} else {
				// the real File has given fewer distinct answers than the behaviour assumes (the trace is already
				// rejected at the look-up that differed): go on with a value of our own
				l = &Location{Country: Country(s.L.Ctry), Continent: Continent(s.L.Cont), TopSubdivision: s.L.Sub, ASN: ASN(s.L.ASN)}
			}
		} else {
			l = &Location{Country: Country(s.L.Ctry), Continent: Continent(s.L.Cont), TopSubdivision: s.L.Sub, ASN: ASN(s.L.ASN)}
		}
		before := *l
		fam := netutil.AddrFamilyIPv4
		if s.Fam == 6 {
			fam = netutil.AddrFamilyIPv6
		}
		n, err := x.f.SubnetByLocation(l, fam)
		ev["l"], ev["lp"], ev["fam"], ev["sn"], ev["err"] = e9LocOf(&before), s.LP, s.Fam, e9PfxOf(n), e9ErrClass(err)
		own := [][]any{}
		if s.LP == 0 && *l != before {
			own = append(own, []any{0, e9LocOf(&before), e9LocOf(l)}) // the caller's own Location was written to
		}
		ev["own"] = own
		ev["conc"] = fmt.Sprintf("%+v %v -> %v", before, fam, n)
	default:
		x.t.Fatalf("unknown step %q", s.A)
	}
	ev["chg"] = x.chg()
	ev["obs"], _ = x.obs(maps)
	x.out.Emit(ev)
}

func (x *e9Run) fileFor(d e9FileDesc) *e9File {
	if d.Mode == "shipped" {
		k := d.Kind + "/" + d.Path
		if f, ok := x.shared[k]; ok {
			return f
		}
		f := x.rg.add(d)
		x.shared[k] = f
		return f
	}
	b, _ := json.Marshal(d)
	if f, ok := x.shared[string(b)]; ok {
		return f
	}
	f := x.rg.add(d)
	x.shared[string(b)] = f
	return f
}

func e9RunWorld(t testing.TB, rg *e9Reg, out *vhOut, shared map[string]*e9File, w *e9World, rng *rand.Rand) {
	x := &e9Run{t: t, rg: rg, w: w, out: out, ptrs: map[*Location]*e9Ptr{}, byID: map[int]*e9Ptr{}, refr: map[string]*e9Refresh{}, blocked: map[string]*e9Refresh{},
		shared: shared}
	dir, err := os.MkdirTemp("", "ext9-world-")
	if err != nil {
		t.Fatal(err)
	}
	defer os.RemoveAll(dir)
	x.dir = dir
	var ids []int
	for _, d := range w.Files {
		f := x.fileFor(d)
		x.vers = append(x.vers, f)
		ids = append(ids, f.id)
	}
	tops, all := map[Country]ASN{}, container.NewMapSet[ASN]()
	topsOut, allOut := [][]any{}, []int64{}
	if w.Default {
		tops, all = DefaultCountryTopASNs, DefaultTopASNs
		for c, a := range tops {
			topsOut = append(topsOut, []any{string(c), int64(a)})
		}
		all.Range(func(a ASN) bool { allOut = append(allOut, int64(a)); return true })
		sort.Slice(topsOut, func(a, b int) bool { return topsOut[a][0].(string) < topsOut[b][0].(string) })
		sort.Slice(allOut, func(a, b int) bool { return allOut[a] < allOut[b] })
	} else {
		for _, p := range w.Tops {
			c, a := p[0].(string), int64(p[1].(float64))
			tops[Country(c)] = ASN(a)
			topsOut = append(topsOut, []any{c, a})
		}
		for _, a := range w.AllTop {
			all.Add(ASN(a))
			allOut = append(allOut, a)
		}
	}
	e9G = &e9Gates{arr: make(chan e9Arrival, 64)}
	VerifHook = e9Hook
	defer func() { VerifHook = nil }()
	x.f = NewFile(&FileConfig{Logger: slogutil.NewDiscardLogger(), CacheManager: agdcache.EmptyManager{},
		ASNPath: filepath.Join(dir, "A.mmdb"), CountryPath: filepath.Join(dir, "C.mmdb"),
		HostCacheCount: w.HostCap, IPCacheCount: w.IPCap, AllTopASNs: all, CountryTopASNs: tops})
	disk := []int{0, 0}
	for i, k := range []string{"A", "C"} {
		if len(w.Disk0) == 2 && w.Disk0[i] > 0 {
			x.put(k, x.vers[w.Disk0[i]-1])
			disk[i] = x.vers[w.Disk0[i]-1].id
		}
	}
	o0, _ := x.obs(true)
	out.Emit(e9Event{"ev": "Reset", "world": w.ID, "src": w.Src, "hostcap": w.HostCap, "ipcap": w.IPCap, "tops": topsOut,
		"alltop": allOut, "vers": ids, "disk": disk, "obs": o0})
	n := 0
	for _, s := range w.Steps {
		switch s.A {
		case "AutoData":
			for _, st := range x.autoData(rng, s.Cnt) {
				x.step(n, st)
				n++
			}
		case "AutoSubnet":
			for _, st := range x.autoSubnet(rng, s.Cnt) {
				x.step(n, st)
				n++
			}
		default:
			x.step(n, s)
			n++
		}
	}
	o1, _ := x.obs(true)
	out.Emit(e9Event{"ev": "End", "chg": x.chg(), "obs": o1})
	for r, rf := range x.blocked {
		x.refr[r] = rf
	}
	if len(x.refr) > 0 {
		// let unfinished refreshes run out (not part of the trace)
		e9G.free.Store(true)
		for _, rf := range x.refr {
			for _, a := range rf.pending {
				close(a.release)
			}
		}
		for _, rf := range x.refr {
			deadline := time.After(e9Wait)
			for !rf.ret {
				select {
				case a := <-e9G.arr:
					if a.release != nil {
						close(a.release)
					}
				case <-rf.done:
					rf.ret = true
				case <-deadline:
					t.Fatal("an unfinished refresh does not return")
				}
			}
		}
	}
}

// autoData: Data for addresses of the databases in force and their neighbours (the other end of the
// network, another address under the same cache key, the adjacent key, IPv4-mapped and IPv4-compatible
// forms), repeated addresses and host-only questions in between.
func (x *e9Run) autoData(rng *rand.Rand, cnt int) (steps []e9Step) {
	_, o := x.obs(false)
	var pool [][]int
	add := func(b []int) { pool = append(pool, append([]int{}, b...)) }
	var pools [2][][]int
	for vi, v := range []int{o.DBC, o.DBA} {
		if v <= 0 {
			continue
		}
		pool = nil
		for _, n := range x.rg.files[v-1].nets {
			b := append([]int{}, n.B...)
			add(b)
			last := append([]int{}, b...)
			for i := n.N; i < len(b)*8; i++ {
				last[i/8] |= 1 << (7 - i%8)
			}
			add(last)
			klen := 3
			if len(b) == 16 {
				klen = 7
			}
			nb := append([]int{}, b...)
			nb[len(nb)-1] ^= 0x55
			add(nb)
			adj := append([]int{}, b...)
			adj[klen-1] ^= 1
			add(adj)
			if len(b) == 4 {
				add(append([]int{0, 0, 0, 0, 0, 0, 0, 0, 0, 0, 255, 255}, b...))
				if rng.Intn(8) == 0 {
					add(append(make([]int, 12), b...))
				}
			}
		}
		rng.Shuffle(len(pool), func(i, j int) { pool[i], pool[j] = pool[j], pool[i] })
		pools[vi] = pool
	}
	// alternate between the two databases, so that the smaller one (countries) is covered as well
	pool = nil
	for i := 0; i < len(pools[0]) || i < len(pools[1]); i++ {
		for _, p := range pools {
			if i < len(p) {
				pool = append(pool, p[i])
			}
		}
	}
	// addresses no database knows, always asked
	var special [][]int
	for _, s := range []string{"0.0.0.0", "255.255.255.255", "::", "::1", "203.0.113.9", "2001:db8::1", "ff02::1", "::ffff:0.0.0.0",
		"fe80::1"} {
		special = append(special, e9IPBytes(net.IP(netip.MustParseAddr(s).AsSlice())))
	}
	pool = append(special, pool...)
	if cnt <= 0 || cnt > len(pool) {
		cnt = len(pool)
	}
	hosts := []string{"", "h1.example", "h2.example", "h3.example"}
	for i, b := range pool[:cnt] {
		st := e9Step{A: "Data", IP: b, Host: hosts[rng.Intn(len(hosts))]}
		if len(b) == 16 && b[0] == 0xfe {
			st.Zone = "eth0"
		}
		steps = append(steps, st)
		if i%7 == 3 {
			steps = append(steps, e9Step{A: "Data", IP: pool[rng.Intn(i+1)], Host: hosts[rng.Intn(len(hosts))]})
			steps = append(steps, e9Step{A: "Data", Zero: true, Host: hosts[rng.Intn(len(hosts))]})
		}
	}
	return steps
}

// autoSubnet: SubnetByLocation for the answers Data has given (as fresh values and as the very
// pointers), for the keys of the maps in force, and for variations of country, subdivision and ASN.
func (x *e9Run) autoSubnet(rng *rand.Rand, cnt int) (steps []e9Step) {
	_, o := x.obs(true)
	seen := map[string]bool{}
	add := func(l e9Loc, lp int) {
		for _, fam := range []int{4, 6} {
			k := fmt.Sprint(l, lp, fam)
			if !seen[k] {
				seen[k] = true
				steps = append(steps, e9Step{A: "Subnet", L: l, LP: lp, Fam: fam})
			}
		}
	}
	for _, p := range x.order {
		l := e9LocOf(&p.snap)
		add(l, 0)
		if rng.Intn(3) == 0 {
			add(l, p.id)
		}
	}
	var asns []int64
	ctrs := []string{"", "FR", "RU", "US", "CN", "IN"}
	subs := []string{"", "MOW", "WA", "22"}
	for _, m := range [][]e9MapEnt{o.Loc4, o.Loc6} {
		for _, e := range m {
			asns = append(asns, e.ASN)
			if e.Sub != "" {
				subs = append(subs, e.Sub)
			}
			add(e9Loc{Ctry: e.Ctry, Sub: e.Sub, ASN: e.ASN}, 0)
		}
	}
	for _, m := range [][]e9MapEnt{o.C4, o.C6} {
		for _, e := range m {
			ctrs = append(ctrs, e.Ctry)
		}
	}
	for _, p := range x.w.Tops {
		ctrs = append(ctrs, p[0].(string))
	}
	asns = append(asns, 0, 25159, 64500)
	for _, c := range ctrs {
		add(e9Loc{Ctry: c}, 0)
		for k := 0; k < 6; k++ {
			add(e9Loc{Ctry: c, Sub: subs[rng.Intn(len(subs))], ASN: asns[rng.Intn(len(asns))]}, 0)
		}
		add(e9Loc{Ctry: c, Sub: "MOW", ASN: 25159}, 0)
	}
	rng.Shuffle(len(steps), func(i, j int) { steps[i], steps[j] = steps[j], steps[i] })
	if cnt > 0 && cnt < len(steps) {
		steps = steps[:cnt]
	}
	return steps
}

type e9Input struct {
	Worlds []*e9World `json:"worlds"`
}

func TestVerifEXT9Stepper(t *testing.T) {
	out := vhOpen(t)
	var in e9Input
	vhReadJSON(t, os.Getenv("VERIF_IN"), &in)
	fp := os.Getenv("VERIF_FILES")
	if fp == "" {
		t.Fatal("VERIF_FILES not set")
	}
	fout, err := os.Create(fp)
	if err != nil {
		t.Fatal(err)
	}
	defer fout.Close()
	rg := &e9Reg{t: t, fout: fout, byKey: map[string]int{}}
	rng := rand.New(rand.NewSource(vhSeed()))
	shared := map[string]*e9File{}
	for _, w := range in.Worlds {
		e9RunWorld(t, rg, out, shared, w, rng)
	}
	// observation: a database with a record for 0.0.0.0 (the reader check of geoIPFromFile looks that address up)
	dir := t.TempDir()
	zero := e9WriteMMDB("A", []e9Net{{B: []int{0, 0, 0, 0}, N: 8, ASN: 7}, {B: []int{10, 0, 0, 0}, N: 8, ASN: 8}}, 9999)
	ok := e9WriteMMDB("C", []e9Net{{B: []int{10, 0, 0, 0}, N: 8, Ctry: "US", Cont: "NA"}}, 9998)
	os.WriteFile(filepath.Join(dir, "A.mmdb"), zero, 0o644)
	os.WriteFile(filepath.Join(dir, "C.mmdb"), ok, 0o644)
	f := NewFile(&FileConfig{Logger: slogutil.NewDiscardLogger(), CacheManager: agdcache.EmptyManager{},
		ASNPath: filepath.Join(dir, "A.mmdb"), CountryPath: filepath.Join(dir, "C.mmdb"), HostCacheCount: 1, IPCacheCount: 1,
		AllTopASNs: container.NewMapSet[ASN](), CountryTopASNs: map[Country]ASN{}})
	perr := f.Refresh(context.Background())
	out.Emit(e9Event{"ev": "Probe", "what": "a valid database with a record for 0.0.0.0/8", "err": fmt.Sprint(perr)})
}

// ---------------------------------------------------------------- concurrent readers

// TestVerifEXT9Concurrent: readers call Data and SubnetByLocation while the main goroutine replaces the
// files and refreshes (no gates).  Every recorded call carries the pairs of database versions that were
// in force at some time between its start and its end; TLC judges each line.  Run with -race.
func TestVerifEXT9Concurrent(t *testing.T) {
	out := vhOpen(t)
	var in e9Input
	vhReadJSON(t, os.Getenv("VERIF_IN"), &in)
	fout, err := os.Create(os.Getenv("VERIF_FILES"))
	if err != nil {
		t.Fatal(err)
	}
	defer fout.Close()
	rg := &e9Reg{t: t, fout: fout, byKey: map[string]int{}}
	rng := rand.New(rand.NewSource(vhSeed()))
	nref, keep := vhEnvInt("VERIF_NREFRESH", 40), vhEnvInt("VERIF_KEEPREADS", 400)
	for _, w := range in.Worlds {
		x := &e9Run{t: t, rg: rg, w: w, out: out, ptrs: map[*Location]*e9Ptr{}, byID: map[int]*e9Ptr{}, refr: map[string]*e9Refresh{}, blocked: map[string]*e9Refresh{},
			shared: map[string]*e9File{}}
		dir, derr := os.MkdirTemp("", "ext9-conc-")
		if derr != nil {
			t.Fatal(derr)
		}
		x.dir = dir
		var as, cs []*e9File
		var ids []int
		for _, d := range w.Files {
			f := x.fileFor(d)
			ids = append(ids, f.id)
			if d.Kind == "A" {
				as = append(as, f)
			} else {
				cs = append(cs, f)
			}
		}
		tops, all := map[Country]ASN{}, container.NewMapSet[ASN]()
		topsOut, allOut := [][]any{}, []int64{}
		for _, p := range w.Tops {
			c, a := p[0].(string), int64(p[1].(float64))
			tops[Country(c)] = ASN(a)
			topsOut = append(topsOut, []any{c, a})
		}
		for _, a := range w.AllTop {
			all.Add(ASN(a))
			allOut = append(allOut, a)
		}
		VerifHook = nil
		x.f = NewFile(&FileConfig{Logger: slogutil.NewDiscardLogger(), CacheManager: agdcache.EmptyManager{},
			ASNPath: filepath.Join(dir, "A.mmdb"), CountryPath: filepath.Join(dir, "C.mmdb"),
			HostCacheCount: w.HostCap, IPCacheCount: w.IPCap, AllTopASNs: all, CountryTopASNs: tops})
		o0, _ := x.obs(true)
		out.Emit(e9Event{"ev": "Reset", "world": w.ID, "src": "concurrent", "hostcap": w.HostCap, "ipcap": w.IPCap, "tops": topsOut,
			"alltop": allOut, "vers": ids, "disk": []int{0, 0}, "obs": o0})
		// the loadable versions only take part in pairs
		good := func(l []*e9File) (g []*e9File) {
			for _, f := range l {
				if f.ref != nil {
					g = append(g, f)
				}
			}
			return g
		}
		ga, gc := good(as), good(cs)
		x.put("A", ga[0])
		x.put("C", gc[0])
		if rerr := x.f.Refresh(context.Background()); rerr != nil {
			t.Fatal(rerr)
		}
		pairs := [][2]int{{ga[0].id, gc[0].id}} // pairs[k]: in force after k refreshes
		var started, done atomic.Int64
		var stop atomic.Bool
		type read struct {
			kind   string
			ip     []int
			host   string
			got    e9Loc
			err    string
			l      e9Loc
			fam    int
			sn     e9Pfx
			v0, v1 int64
		}
		var addrs [][]int
		for _, s := range w.Steps {
			if s.A == "Data" {
				addrs = append(addrs, s.IP)
			}
		}
		var locs []e9Step
		for _, s := range w.Steps {
			if s.A == "Subnet" {
				locs = append(locs, s)
			}
		}
		nreaders := 6
		res := make([][]read, nreaders)
		total := make([]int, nreaders)
		var wg sync.WaitGroup
		for ri := 0; ri < nreaders; ri++ {
			wg.Add(1)
			go func(ri int) {
				defer wg.Done()
				r := rand.New(rand.NewSource(vhSeed()*100 + int64(ri)))
				for n := 0; !stop.Load(); n++ {
					total[ri]++
					if n%3 == 2 && len(locs) > 0 {
						s := locs[r.Intn(len(locs))]
						l := &Location{Country: Country(s.L.Ctry), TopSubdivision: s.L.Sub, ASN: ASN(s.L.ASN)}
						fam := netutil.AddrFamilyIPv4
						if s.Fam == 6 {
							fam = netutil.AddrFamilyIPv6
						}
						v0 := done.Load()
						sn, serr := x.f.SubnetByLocation(l, fam)
						v1 := started.Load()
						if len(res[ri]) < keep && (v1 > v0 || r.Intn(20) == 0) {
							res[ri] = append(res[ri], read{kind: "CSubnet", l: s.L, fam: s.Fam, sn: e9PfxOf(sn), err: e9ErrClass(serr), v0: v0, v1: v1})
						}
						continue
					}
					ip := addrs[r.Intn(len(addrs))]
					host := []string{"", "h1", "h2"}[r.Intn(3)]
					v0 := done.Load()
					l, derr := x.f.Data(host, e9Addr(ip, ""))
					got := e9LocOf(l)
					v1 := started.Load()
					if len(res[ri]) < keep && (v1 > v0 || r.Intn(20) == 0) {
						res[ri] = append(res[ri], read{kind: "CRead", ip: ip, host: host, got: got, err: e9ErrClass(derr), v0: v0, v1: v1})
					}
				}
			}(ri)
		}
		outcomes := []string{}
		for k := 1; k <= nref; k++ {
			// an odd refresh changes BOTH databases to the next loadable versions (pairs are aligned: version i of
			// one database is only ever in force with version i of the other); an even one finds one file unloadable
			a, c := ga[(k/2+1)%len(ga)], gc[(k/2+1)%len(gc)]
			if k%2 == 0 {
				if rng.Intn(2) == 0 && len(as) > len(ga) {
					a = as[len(as)-1]
				} else if len(cs) > len(gc) {
					c = cs[len(cs)-1]
				}
			}
			x.put("A", a)
			x.put("C", c)
			started.Add(1)
			rerr := x.f.Refresh(context.Background())
			if rerr == nil {
				pairs = append(pairs, [2]int{a.id, c.id})
			} else {
				pairs = append(pairs, pairs[len(pairs)-1])
			}
			outcomes = append(outcomes, e9ErrClass(rerr))
			done.Add(1)
			time.Sleep(time.Duration(200+rng.Intn(800)) * time.Microsecond)
		}
		stop.Store(true)
		wg.Wait()
		os.RemoveAll(dir)
		sum := 0
		for ri := range res {
			sum += total[ri]
			for _, rd := range res[ri] {
				if rd.v1 >= int64(len(pairs)) {
					rd.v1 = int64(len(pairs) - 1)
				}
				seen := map[[2]int]bool{}
				ps := [][]int{}
				for v := rd.v0; v <= rd.v1; v++ {
					if !seen[pairs[v]] {
						seen[pairs[v]] = true
						ps = append(ps, []int{pairs[v][0], pairs[v][1]})
					}
				}
				ev := e9Event{"ev": rd.kind, "pairs": ps, "v0": rd.v0, "v1": rd.v1, "err": rd.err, "reader": ri}
				if rd.kind == "CRead" {
					ev["ip"], ev["host"], ev["got"] = rd.ip, rd.host, rd.got
				} else {
					ev["l"], ev["fam"], ev["sn"] = rd.l, rd.fam, rd.sn
				}
				out.Emit(ev)
			}
		}
		out.Emit(e9Event{"ev": "CEnd", "total": sum, "refreshes": nref, "outcomes": outcomes})
	}
}
