//go:build verif

package agdcache

// EXT11, part (a), concurrent leg.  Several goroutines call Set /
// SetWithExpire / Get / Len / Clear on ONE real LRU under the race detector.
// Every call is recorded with a logical call time and return time (one atomic
// counter, no wall clock).  porcupine searches a linearisation of each history
// in a Go transcription of the sequential model of AgdCache.tla; the
// linearisation found is written as an ordinary sequential trace (results
// only), which TLC validates against the specification itself.  A history
// without linearisation is written as one "NotLinearizable" event.

import (
	"fmt"
	"math/rand"
	"runtime"
	"strings"
	"sync"
	"sync/atomic"
	"testing"
	"time"

	"github.com/anishathalye/porcupine"
)

type e11In struct {
	Op  string `json:"op"`
	K   string `json:"k,omitempty"`
	V   string `json:"v,omitempty"`
	Exp bool   `json:"exp,omitempty"`
}

type e11Out struct {
	Ok bool   `json:"ok"`
	V  string `json:"v,omitempty"`
	N  int    `json:"n"`
}

type e11HistOp struct {
	G    int    `json:"g"`
	In   e11In  `json:"in"`
	Out  e11Out `json:"out"`
	Call int64  `json:"call"`
	Ret  int64  `json:"ret"`
}

// e11Seq is the sequential LRU of AgdCache.tla: keys most recently used first.
type e11Seq struct {
	keys []string
	vals []string
}

func (s e11Seq) String() string {
	var b strings.Builder
	for i := range s.keys {
		fmt.Fprintf(&b, "%s=%s,", s.keys[i], s.vals[i])
	}
	return b.String()
}

func (s e11Seq) without(k string) (r e11Seq, v string, found bool) {
	for i := range s.keys {
		if s.keys[i] == k {
			v, found = s.vals[i], true
			continue
		}
		r.keys = append(r.keys, s.keys[i])
		r.vals = append(r.vals, s.vals[i])
	}
	return r, v, found
}

func (s e11Seq) front(k, v string) e11Seq {
	return e11Seq{keys: append([]string{k}, s.keys...), vals: append([]string{v}, s.vals...)}
}

func e11Model(capacity int) porcupine.Model {
	return porcupine.Model{
		Init: func() interface{} { return e11Seq{} },
		Step: func(state, input, output interface{}) (bool, interface{}) {
			s, in, out := state.(e11Seq), input.(e11In), output.(e11Out)
			switch in.Op {
			case "Set":
				r, _, found := s.without(in.K)
				if !found && len(s.keys) >= capacity {
					r = e11Seq{keys: s.keys[:len(s.keys)-1], vals: s.vals[:len(s.vals)-1]}
				}
				return true, r.front(in.K, in.V)
			case "Get":
				r, v, found := s.without(in.K)
				if !found {
					return !out.Ok && out.V == "", s
				}
				return out.Ok && out.V == v, r.front(in.K, v)
			case "Len":
				return out.N == len(s.keys), s
			case "Clear":
				return true, e11Seq{}
			}
			return false, s
		},
		Equal: func(a, b interface{}) bool { return a.(e11Seq).String() == b.(e11Seq).String() },
		DescribeOperation: func(in, out interface{}) string { return fmt.Sprintf("%+v -> %+v", in, out) },
	}
}

func TestVerifEXT11Conc(t *testing.T) {
	out := vhOpen(t)
	capacity := vhEnvInt("VERIF_CAP1", 2)
	rounds := vhEnvInt("VERIF_NROUNDS", 60)
	const goroutines = 3
	const perG = 6
	keys := e11Keys[:3]
	rnd := rand.New(rand.NewSource(vhSeed()))
	model := e11Model(capacity)
	overlaps, done := 0, 0
	for r := 0; r < rounds; r++ {
		c := NewLRU[string, string](&LRUConfig{Count: capacity})
		plans := make([][]e11In, goroutines)
		yields := make([][]bool, goroutines)
		for g := range plans {
			for i := 0; i < perG; i++ {
				var in e11In
				switch x := rnd.Intn(100); {
				case x < 40:
					in = e11In{Op: "Set", K: keys[rnd.Intn(len(keys))], V: e11Vals[rnd.Intn(2)], Exp: rnd.Intn(4) == 0}
				case x < 80:
					in = e11In{Op: "Get", K: keys[rnd.Intn(len(keys))]}
				case x < 93:
					in = e11In{Op: "Len"}
				default:
					in = e11In{Op: "Clear"}
				}
				plans[g] = append(plans[g], in)
				yields[g] = append(yields[g], rnd.Intn(3) == 0)
			}
		}
		var clock int64
		hist := make([][]e11HistOp, goroutines)
		start := make(chan struct{})
		wg := &sync.WaitGroup{}
		for g := 0; g < goroutines; g++ {
			wg.Add(1)
			go func(g int) {
				defer wg.Done()
				<-start
				for i, in := range plans[g] {
					if yields[g][i] {
						runtime.Gosched()
					}
					op := e11HistOp{G: g, In: in}
					op.Call = atomic.AddInt64(&clock, 1)
					switch in.Op {
					case "Set":
						if in.Exp {
							c.SetWithExpire(in.K, in.V, 24*time.Hour)
						} else {
							c.Set(in.K, in.V)
						}
					case "Get":
						op.Out.V, op.Out.Ok = c.Get(in.K)
					case "Len":
						op.Out.N = c.Len()
					case "Clear":
						c.Clear()
					}
					op.Ret = atomic.AddInt64(&clock, 1)
					hist[g] = append(hist[g], op)
				}
			}(g)
		}
		close(start)
		wg.Wait()
		var all []e11HistOp
		var ops []porcupine.Operation
		for g := range hist {
			for _, op := range hist[g] {
				all = append(all, op)
				ops = append(ops, porcupine.Operation{ClientId: g, Input: op.In, Call: op.Call, Output: op.Out, Return: op.Ret})
			}
		}
		for i := range all {
			for j := i + 1; j < len(all); j++ {
				if all[i].G != all[j].G && all[i].Call < all[j].Ret && all[j].Call < all[i].Ret {
					overlaps++
				}
			}
		}
		res, info := porcupine.CheckOperationsVerbose(model, ops, 0)
		done++
		if res != porcupine.Ok {
			out.Emit(map[string]any{"ev": "NotLinearizable", "round": r, "cap1": capacity, "hist": all, "result": string(res)})
			continue
		}
		var lin []int
		for _, part := range info.PartialLinearizations() {
			for _, l := range part {
				if len(l) > len(lin) {
					lin = l
				}
			}
		}
		if len(lin) != len(ops) {
			t.Fatalf("ext11: porcupine said Ok but the longest linearisation has %d of %d calls", len(lin), len(ops))
		}
		out.Emit(map[string]any{"ev": "History", "round": r, "hist": all})
		out.Emit(&e11Event{Ev: "Reset", Beh: r, Cap1: capacity, Cap2: 1, Src: "linearisation"})
		for _, idx := range lin {
			op := all[idx]
			ev := &e11Event{Ev: op.In.Op, Beh: r, C: "l1", K: op.In.K, V: op.In.V, Exp: op.In.Exp, Src: "linearisation"}
			switch op.In.Op {
			case "Get":
				ev.Ok, ev.Got = op.Out.Ok, op.Out.V
				if !op.Out.Ok {
					ev.Got = e11None
					if op.Out.V != "" {
						ev.Got = "nonzero-on-miss:" + op.Out.V
					}
				}
			case "Len":
				ev.N = op.Out.N
			}
			out.Emit(ev)
		}
	}
	out.Emit(map[string]any{"ev": "ConcSummary", "rounds": done, "overlaps": overlaps, "goroutines": goroutines,
		"ops": goroutines * perG})
}
