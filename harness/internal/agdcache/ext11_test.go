//go:build verif

package agdcache

// EXT11, part (a).  Replay of action sequences (TLC-generated behaviours of
// AgdCache.tla from $VERIF_IN and seeded random ones) on the real agdcache.LRU,
// agdcache.Empty and agdcache.DefaultManager.
//
// After every call one event is written with the result of the call and the
// abstract state of every object: for each cache Len(), the kept keys and
// values (gcache.GetALL, which does not touch recency) and the recency order
// (most recently used first; read from the eviction list of gcache.LRUCache
// through reflection, because no public call shows it without changing it);
// for the manager the registry (which cache object is behind which id) and
// IDs().  At the end of a sequence every LRU is drained through the public
// interface: fresh keys are set one by one and the key that disappears each
// time is recorded, which shows the recency order as eviction sees it.  The
// verdict is TLC's (TraceAgdCache.tla).

import (
	"container/list"
	"fmt"
	"math/rand"
	"os"
	"reflect"
	"sort"
	"testing"
	"time"
	"unsafe"

	"github.com/bluele/gcache"
)

type e11Step struct {
	A   string `json:"a"`
	C   string `json:"c"`
	K   string `json:"k"`
	V   string `json:"v"`
	Exp bool   `json:"exp"`
	ID  string `json:"id"`
}

type e11CacheState struct {
	Order   []string          `json:"order"`
	NoOrder bool              `json:"noorder"`
	Keys    []string          `json:"keys"`
	Vals    map[string]string `json:"vals"`
	Len     int               `json:"len"`
}

type e11Event struct {
	Ev      string                    `json:"ev"`
	Beh     int                       `json:"beh"`
	C       string                    `json:"c,omitempty"`
	K       string                    `json:"k,omitempty"`
	V       string                    `json:"v,omitempty"`
	Exp     bool                      `json:"exp"`
	ID      string                    `json:"id,omitempty"`
	Ok      bool                      `json:"ok"`
	Got     string                    `json:"got,omitempty"`
	N       int                       `json:"n"`
	Cap1    int                       `json:"cap1,omitempty"`
	Cap2    int                       `json:"cap2,omitempty"`
	Evicted []string                  `json:"evicted"`
	St      map[string]*e11CacheState `json:"st,omitempty"`
	Reg     map[string]string         `json:"reg,omitempty"`
	IDs     []string                  `json:"ids"`
	Src     string                    `json:"src,omitempty"`
}

var (
	e11Keys   = []string{"k1", "k2", "k3", "k4"}
	e11Vals   = []string{"v1", "v2"}
	e11IDs    = []string{"a", "b"}
	e11Caches = []string{"l1", "l2", "e"}
)

const e11None = "none"

type e11Lab struct {
	l1, l2 *LRU[string, string]
	e      Empty[string, string]
	m      *DefaultManager
}

func e11NewLab(cap1, cap2 int) *e11Lab {
	return &e11Lab{
		l1: NewLRU[string, string](&LRUConfig{Count: cap1}),
		l2: NewLRU[string, string](&LRUConfig{Count: cap2}),
		e:  Empty[string, string]{},
		m:  NewDefaultManager(),
	}
}

func (lab *e11Lab) cache(name string) Interface[string, string] {
	switch name {
	case "l1":
		return lab.l1
	case "l2":
		return lab.l2
	case "e":
		return lab.e
	}
	panic("ext11: unknown cache " + name)
}

func (lab *e11Lab) nameOf(c Clearer) string {
	switch v := c.(type) {
	case nil:
		return e11None
	case *LRU[string, string]:
		if v == lab.l1 {
			return "l1"
		} else if v == lab.l2 {
			return "l2"
		}
	case Empty[string, string]:
		return "e"
	}
	return fmt.Sprintf("foreign:%T", c)
}

// e11Order reads the eviction list of the gcache LRU behind c, front (most
// recently used) first.  ok is false when the cache is not a gcache.LRUCache of
// the known shape; the order is then left out of the event.
func e11Order(c *LRU[string, string]) (order []string, ok bool) {
	defer func() {
		if recover() != nil {
			order, ok = nil, false
		}
	}()
	lc, isLRU := c.cache.(*gcache.LRUCache)
	if !isLRU {
		return nil, false
	}
	f := reflect.ValueOf(lc).Elem().FieldByName("evictList")
	if !f.IsValid() {
		return nil, false
	}
	lst := *(**list.List)(unsafe.Pointer(f.UnsafeAddr()))
	order = []string{}
	for el := lst.Front(); el != nil; el = el.Next() {
		it := reflect.ValueOf(el.Value).Elem()
		kf := it.FieldByName("key")
		if !kf.IsValid() {
			return nil, false
		}
		k := *(*interface{})(unsafe.Pointer(kf.UnsafeAddr()))
		order = append(order, k.(string))
	}
	return order, true
}

func e11LRUState(c *LRU[string, string]) *e11CacheState {
	st := &e11CacheState{Order: []string{}, Keys: []string{}, Vals: map[string]string{}, Len: c.Len()}
	for _, k := range e11Keys {
		st.Vals[k] = e11None
	}
	for k, v := range c.cache.GetALL(false) {
		ks := k.(string)
		st.Keys = append(st.Keys, ks)
		if v == nil {
			st.Vals[ks] = "nil"
		} else {
			st.Vals[ks] = v.(string)
		}
	}
	sort.Strings(st.Keys)
	if o, ok := e11Order(c); ok {
		st.Order = o
	} else {
		st.NoOrder = true
	}
	return st
}

func (lab *e11Lab) observe(ev *e11Event) {
	ev.St = map[string]*e11CacheState{
		"l1": e11LRUState(lab.l1),
		"l2": e11LRUState(lab.l2),
	}
	est := &e11CacheState{Order: []string{}, Keys: []string{}, Vals: map[string]string{}, Len: lab.e.Len()}
	for _, k := range e11Keys {
		est.Vals[k] = e11None
	}
	ev.St["e"] = est
	ev.Reg = map[string]string{}
	lab.m.mu.Lock()
	for _, id := range e11IDs {
		ev.Reg[id] = lab.nameOf(lab.m.caches[id])
	}
	for id := range lab.m.caches {
		if id != "a" && id != "b" {
			ev.Reg[id] = "foreign-id"
		}
	}
	lab.m.mu.Unlock()
	ev.IDs = append([]string{}, lab.m.IDs()...)
}

func (lab *e11Lab) step(s e11Step, beh int, src string) *e11Event {
	ev := &e11Event{Ev: s.A, Beh: beh, C: s.C, Src: src}
	switch s.A {
	case "Set":
		ev.K, ev.V, ev.Exp = s.K, s.V, s.Exp
		if s.Exp {
			lab.cache(s.C).SetWithExpire(s.K, s.V, 24*time.Hour)
		} else {
			lab.cache(s.C).Set(s.K, s.V)
		}
	case "Get":
		ev.K = s.K
		v, ok := lab.cache(s.C).Get(s.K)
		ev.Ok, ev.Got = ok, v
		if !ok {
			if v != "" {
				ev.Got = "nonzero-on-miss:" + v
			} else {
				ev.Got = e11None
			}
		}
	case "Len":
		ev.N = lab.cache(s.C).Len()
	case "Clear":
		lab.cache(s.C).Clear()
	case "Add":
		ev.ID = s.ID
		lab.m.Add(s.ID, lab.cache(s.C))
	case "ClearByID":
		ev.ID, ev.C = s.ID, ""
		lab.m.ClearByID(s.ID)
	default:
		panic("ext11: unknown action " + s.A)
	}
	lab.observe(ev)
	return ev
}

// drain shows the recency order of the LRU through Set alone.
func (lab *e11Lab) drain(name string, capacity, beh int) *e11Event {
	c := lab.cache(name).(*LRU[string, string])
	ev := &e11Event{Ev: "Drain", Beh: beh, C: name, Evicted: []string{}}
	before := map[string]bool{}
	for k := range c.cache.GetALL(false) {
		before[k.(string)] = true
	}
	for i := 0; i < capacity && len(before) > 0; i++ {
		z := fmt.Sprintf("z%d", i)
		c.Set(z, "vz")
		now := c.cache.GetALL(false)
		var gone []string
		for k := range before {
			if _, ok := now[k]; !ok {
				gone = append(gone, k)
			}
		}
		sort.Strings(gone)
		for _, k := range gone {
			delete(before, k)
			ev.Evicted = append(ev.Evicted, k)
		}
		for k := range now {
			ks := k.(string)
			if !before[ks] && ks[0] != 'z' {
				ev.Evicted = append(ev.Evicted, "appeared:"+ks)
			}
		}
	}
	c.Clear()
	lab.observe(ev)
	return ev
}

func e11Random(rnd *rand.Rand, n int) (steps []e11Step) {
	pick := func(a []string) string { return a[rnd.Intn(len(a))] }
	for i := 0; i < n; i++ {
		switch x := rnd.Intn(100); {
		case x < 40:
			steps = append(steps, e11Step{A: "Set", C: pick(e11Caches), K: pick(e11Keys), V: pick(e11Vals), Exp: rnd.Intn(4) == 0})
		case x < 70:
			steps = append(steps, e11Step{A: "Get", C: pick(e11Caches), K: pick(e11Keys)})
		case x < 78:
			steps = append(steps, e11Step{A: "Len", C: pick(e11Caches)})
		case x < 83:
			steps = append(steps, e11Step{A: "Clear", C: pick(e11Caches)})
		case x < 93:
			steps = append(steps, e11Step{A: "Add", C: pick(e11Caches), ID: pick(e11IDs)})
		default:
			steps = append(steps, e11Step{A: "ClearByID", ID: pick(e11IDs)})
		}
	}
	return steps
}

func TestVerifEXT11Replay(t *testing.T) {
	out := vhOpen(t)
	cap1, cap2 := vhEnvInt("VERIF_CAP1", 2), vhEnvInt("VERIF_CAP2", 1)
	var behs [][]e11Step
	if p := os.Getenv("VERIF_IN"); p != "" {
		vhReadJSON(t, p, &behs)
	}
	nsim := len(behs)
	rnd := rand.New(rand.NewSource(vhSeed()))
	for i := 0; i < vhEnvInt("VERIF_NRANDOM", 50); i++ {
		behs = append(behs, e11Random(rnd, 10+rnd.Intn(50)))
	}
	for bi, b := range behs {
		src := "tlc"
		if bi >= nsim {
			src = "random"
		}
		lab := e11NewLab(cap1, cap2)
		reset := &e11Event{Ev: "Reset", Beh: bi, Cap1: cap1, Cap2: cap2, Src: src}
		out.Emit(reset)
		for _, s := range b {
			out.Emit(lab.step(s, bi, src))
		}
		out.Emit(lab.drain("l1", cap1, bi))
		out.Emit(lab.drain("l2", cap2, bi))
	}
}
