//go:build verif

package debugsvc

// EXT7 (b): the debug API decision table on the real handler.
//
// debugsvc.New builds the API server (ServeMux with the POST routes, log and
// server-header middlewares); its handler is taken from svc.servers and
// served with httptest recorders -- no sockets.  Refreshers and caches record
// their invocations.  Every abstract request of specs/DebugAPI.tla (api,
// method, body class, pattern list, failing refreshers) is concretised (two
// sets of concrete ids, several JSON spellings of a body class) and one line
// per request is written; specs/TraceDebugAPI.tla judges the lines.

import (
	"context"
	"encoding/json"
	"errors"
	"fmt"
	"io"
	"math/rand"
	"net/http"
	"net/http/httptest"
	"strings"
	"sync"
	"testing"

	"github.com/AdguardTeam/AdGuardDNS/internal/agdcache"
	"github.com/AdguardTeam/AdGuardDNS/internal/agdservice"
	"github.com/AdguardTeam/golibs/logutil/slogutil"
)

var ext7AbsIDs = []string{"t", "p/a", "p/b"}
var ext7AbsPats = []string{"*", "t", "p/a", "p/*", "zz", "[", "?", "p*"}

// concrete spellings of the abstract ids and patterns
type ext7Naming struct {
	ids  map[string]string
	pats map[string]string
}

var ext7Namings = []ext7Naming{
	{ids: map[string]string{"t": "t", "p/a": "p/a", "p/b": "p/b"},
		pats: map[string]string{"*": "*", "t": "t", "p/a": "p/a", "p/*": "p/*", "zz": "zz", "[": "[", "?": "?", "p*": "p*"}},
	{ids: map[string]string{"t": "x", "p/a": "filters/hashprefix", "p/b": "filters/storage"},
		pats: map[string]string{"*": "*", "t": "x", "p/a": "filters/hashprefix", "p/*": "filters/*", "zz": "geoip",
			"[": "filters/[", "?": "?", "p*": "filt*"}},
}

type ext7Rec struct {
	mu      sync.Mutex
	invoked []string
}

func (r *ext7Rec) add(id string) {
	r.mu.Lock()
	r.invoked = append(r.invoked, id)
	r.mu.Unlock()
}

type ext7Clearer struct {
	rec *ext7Rec
	id  string
}

func (c ext7Clearer) Clear() { c.rec.add(c.id) }

type ext7Req struct {
	API    string   `json:"api"`
	Method string   `json:"method"`
	Body   string   `json:"body"`
	Pats   []string `json:"pats"`
	Fail   []string `json:"fail"`
}

func ext7Body(rng *rand.Rand, r ext7Req, nm ext7Naming) string {
	pick := func(v ...string) string { return v[rng.Intn(len(v))] }
	switch r.Body {
	case "malformed":
		return pick(`{"ids":[`, `not json`, ``, `{"ids":["t"}`, `{ids:["t"]}`)
	case "wrongtype":
		return pick(`{"ids":"t"}`, `{"ids":[1]}`, `[]`, `{"ids":{"t":1}}`, `"*"`, `{"ids":[["t"]]}`)
	case "noids":
		return pick(`{}`, `{"other":["t"]}`, `{"id":["*"]}`)
	case "null":
		return `{"ids":null}`
	case "empty":
		return pick(`{"ids":[]}`, ` { "ids" : [ ] } `)
	}
	var ps []string
	for _, p := range r.Pats {
		ps = append(ps, nm.pats[p])
	}
	b, _ := json.Marshal(ps)
	return fmt.Sprintf(pick(`{"ids":%s}`, ` { "ids" : %s } `, `{"x":1,"ids":%s}`, `{"ids":%s,"y":{"z":["*"]}}`), string(b))
}

func ext7Paths(api string) string {
	switch api {
	case "refresh":
		return PathPatternDebugAPIRefresh
	case "cache":
		return PathPatternDebugAPICache
	}
	return "/debug/api/other"
}

func ext7Serve(out *vhOut, rng *rand.Rand, r ext7Req, nm ext7Naming) {
	rec := &ext7Rec{}
	abs := map[string]string{}
	failing := map[string]bool{}
	for _, f := range r.Fail {
		failing[f] = true
	}
	refrs := Refreshers{}
	mgr := agdcache.NewDefaultManager()
	for _, a := range ext7AbsIDs {
		a := a
		abs[nm.ids[a]] = a
		refrs[nm.ids[a]] = agdservice.RefresherFunc(func(_ context.Context) error {
			rec.add(a)
			if failing[a] {
				return errors.New("ext7 failure of " + a)
			}
			return nil
		})
		mgr.Add(nm.ids[a], ext7Clearer{rec: rec, id: a})
	}
	const addr = "127.0.0.1:0"
	svc := New(&Config{Logger: slogutil.NewDiscardLogger(), Manager: mgr, Refreshers: refrs, APIAddr: addr})
	h := svc.servers[addr].http.Handler
	body := ext7Body(rng, r, nm)
	req := httptest.NewRequest(r.Method, "http://"+addr+ext7Paths(r.API), strings.NewReader(body))
	req.Header.Set("Content-Type", "application/json")
	w := httptest.NewRecorder()
	h.ServeHTTP(w, req)
	resp := w.Result()
	raw, _ := io.ReadAll(resp.Body)
	results := [][]string{}
	why := ""
	if resp.StatusCode == http.StatusOK {
		var parsed struct {
			Results map[string]string `json:"results"`
		}
		if err := json.Unmarshal(raw, &parsed); err != nil || parsed.Results == nil {
			results = append(results, []string{"?", "unparsable: " + string(raw)})
		}
		for id, res := range parsed.Results {
			a, ok := abs[id]
			if !ok {
				a = "?" + id
			}
			switch {
			case res == "ok":
			case strings.HasPrefix(res, "error: ") && strings.Contains(res, "ext7 failure of "+a):
				res = "error"
			}
			results = append(results, []string{a, res})
		}
	} else if resp.StatusCode == http.StatusBadRequest {
		txt := strings.TrimSpace(string(raw))
		switch {
		case txt == "no ids":
			why = "noids"
		case txt == `"*" cannot be used with other ids`:
			why = "mixed"
		case r.Body == "malformed" || r.Body == "wrongtype":
			why = "decode"
		default:
			why = "other: " + txt
		}
	}
	fail := r.Fail
	if fail == nil {
		fail = []string{}
	}
	pats := r.Pats
	if pats == nil {
		pats = []string{}
	}
	invoked := rec.invoked
	if invoked == nil {
		invoked = []string{}
	}
	out.Emit(map[string]any{"api": r.API, "method": r.Method, "body": r.Body, "pats": pats, "fail": fail,
		"status": resp.StatusCode, "json": strings.HasPrefix(resp.Header.Get("Content-Type"), "application/json"),
		"results": results, "invoked": invoked, "why": why, "concrete": body})
}

func TestVerifEXT7Debug(t *testing.T) {
	out := vhOpen(t)
	rng := rand.New(rand.NewSource(vhSeed()*31337 + 3))
	maxPats := vhEnvInt("VERIF_MAXPATS", 2)
	var lists [][]string
	var gen func(cur []string)
	gen = func(cur []string) {
		if len(cur) > 0 {
			lists = append(lists, append([]string(nil), cur...))
		}
		if len(cur) == maxPats {
			return
		}
		for _, p := range ext7AbsPats {
			gen(append(cur, p))
		}
	}
	gen(nil)
	var fails [][]string
	for m := 0; m < 8; m++ {
		f := []string{}
		for i, a := range ext7AbsIDs {
			if m&(1<<i) != 0 {
				f = append(f, a)
			}
		}
		fails = append(fails, f)
	}
	n := 0
	for _, api := range []string{"refresh", "cache", "other"} {
		for _, method := range []string{"POST", "GET", "PUT"} {
			full := method == "POST" && api != "other"
			for _, body := range []string{"malformed", "wrongtype", "noids", "null", "empty"} {
				reps := 1
				if full {
					reps = 4
				}
				for k := 0; k < reps; k++ {
					ext7Serve(out, rng, ext7Req{API: api, Method: method, Body: body, Fail: fails[rng.Intn(8)]},
						ext7Namings[n%len(ext7Namings)])
					n++
				}
			}
			for _, pl := range lists {
				if !full && rng.Intn(12) != 0 {
					continue
				}
				fs := fails
				if api != "refresh" || !full {
					fs = [][]string{fails[rng.Intn(8)]}
				} else if len(pl) > 2 {
					fs = [][]string{fails[rng.Intn(8)], fails[rng.Intn(8)]}
				}
				for _, f := range fs {
					ext7Serve(out, rng, ext7Req{API: api, Method: method, Body: "list", Pats: pl, Fail: f},
						ext7Namings[n%len(ext7Namings)])
					n++
				}
			}
		}
	}
}
