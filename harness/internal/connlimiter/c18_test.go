//go:build verif

package connlimiter

// C18 stepper.  Executes external action sequences (Accept, InnerOK, InnerErr,
// CloseConn, CloseConnAgain, CloseListener) on real limitListeners sharing one
// Limiter.  The wrapped net.Listener is the gate of the pending accept.  After
// every action the harness waits for quiescence -- every outstanding Accept
// call is at the inner gate, has returned, or is parked in sync.Cond.Wait
// (goroutine states from runtime.Stack) -- and records counter and per-listener
// state; TLC (TraceConnLimiter.tla) decides.

import (
	"unsafe"
	"reflect"
	"errors"
	"fmt"
	"io"
	"log/slog"
	"math/rand"
	"net"
	"os"
	"regexp"
	"runtime"
	"strings"
	"sync"
	"sync/atomic"
	"testing"
	"time"

	"github.com/AdguardTeam/AdGuardDNS/internal/agd"
	"github.com/AdguardTeam/AdGuardDNS/internal/dnsserver"
)

type c18Step struct {
	A string `json:"a"`
	L string `json:"l"`
	C int    `json:"c"`
}

type c18Event struct {
	Ev        string            `json:"ev"`
	L         string            `json:"l"`
	C         int               `json:"c"`
	Stop      int               `json:"stop"`
	Resume    int               `json:"resume"`
	Cur       int               `json:"cur"`
	Accepting bool              `json:"accepting"`
	PC        map[string]string `json:"pc"`
	Closed    map[string]bool   `json:"lclosed"`
	Open      []int             `json:"open"`
	Ret       string            `json:"ret"`
	Beh       int               `json:"beh"`
}

type c18Res struct {
	conn net.Conn
	err  error
}

type c18Inner struct {
	id     string
	enter  chan struct{}
	result chan c18Res
	closes atomic.Int32
}

func (i *c18Inner) Accept() (net.Conn, error) {
	i.enter <- struct{}{}
	r := <-i.result
	return r.conn, r.err
}
func (i *c18Inner) Close() error   { i.closes.Add(1); return nil }
func (i *c18Inner) Addr() net.Addr { return &net.TCPAddr{IP: net.IPv4(127, 0, 0, 1), Port: 53} }

type c18Conn struct {
	net.Conn
	id     int
	closes atomic.Int32
}

func (c *c18Conn) Close() error         { c.closes.Add(1); return nil }
func (c *c18Conn) RemoteAddr() net.Addr { return &net.TCPAddr{IP: net.IPv4(10, 0, 0, 1), Port: 1000 + c.id} }

type c18Lsn struct {
	id      string
	inner   *c18Inner
	lim     net.Listener
	cmd     chan struct{}
	ret     chan c18Res
	state   string // idle | called | inner
	lastRet string
}

type c18World struct {
	t      *testing.T
	lim    *Limiter
	ls     map[string]*c18Lsn
	order  []string
	conns  map[int]net.Conn
	inners map[int]*c18Conn
	nconn  int
	stop   int
	resume int
	// goroutines of earlier worlds that a defective limiter left parked for good
	baseParked int
	quiet      bool
}

var c18ParkedRe = regexp.MustCompile(`(?m)^goroutine \d+ \[sync\.Cond\.Wait[^\]]*\]:\n(?:.*\n)*?.*connlimiter\.\(\*limitListener\)\.increment`)

// c18CountParked returns the number of goroutines parked in Cond.Wait below
// limitListener.increment.
func c18CountParked() int {
	buf := make([]byte, 1<<20)
	n := runtime.Stack(buf, true)
	cnt := 0
	for _, g := range strings.Split(string(buf[:n]), "\n\n") {
		if strings.Contains(g, "[sync.Cond.Wait") && strings.Contains(g, "(*limitListener).increment") {
			cnt++
		}
	}
	return cnt
}

func c18New(t *testing.T, stop, resume int, ids []string) *c18World {
	lim, err := New(&Config{Logger: slog.New(slog.NewTextHandler(io.Discard, nil)), Stop: uint64(stop),
		Resume: uint64(resume)})
	if err != nil {
		t.Fatal(err)
	}
	w := &c18World{t: t, lim: lim, ls: map[string]*c18Lsn{}, order: ids, conns: map[int]net.Conn{},
		inners: map[int]*c18Conn{}, stop: stop, resume: resume, baseParked: c18CountParked()}
	for _, id := range ids {
		in := &c18Inner{id: id, enter: make(chan struct{}, 1), result: make(chan c18Res, 1)}
		l := &c18Lsn{id: id, inner: in, cmd: make(chan struct{}), ret: make(chan c18Res, 1), state: "idle"}
		l.lim = lim.Limit(in, &dnsserver.ServerInfo{Name: "srv-" + id, Addr: "127.0.0.1:53", Proto: agd.ProtoDoT})
		w.ls[id] = l
		go func() {
			for range l.cmd {
				c, err := l.lim.Accept()
				l.ret <- c18Res{c, err}
			}
		}()
	}
	return w
}

// settleQuiet is settle for the clean-up phase: it gives up silently.
func (w *c18World) settleQuiet() {
	defer func() { _ = recover() }()
	w.quiet = true
	w.settle()
	w.quiet = false
}

// settle waits for quiescence and classifies every listener.
func (w *c18World) settle() (pc map[string]string) {
	deadline := time.Now().Add(20 * time.Second)
	if w.quiet {
		deadline = time.Now().Add(300 * time.Millisecond)
	}
	stable := 0
	for {
		called := 0
		for _, l := range w.ls {
			if l.state == "called" {
				select {
				case <-l.inner.enter:
					l.state = "inner"
				case r := <-l.ret:
					l.state = "idle"
					l.lastRet = c18RetKind(r)
				default:
				}
			}
			if l.state == "called" {
				called++
			}
		}
		if called == 0 {
			break
		}
		if c18CountParked()-w.baseParked == called {
			stable++
			if stable >= 2 {
				break
			}
		} else {
			stable = 0
		}
		if time.Now().After(deadline) {
			if w.quiet {
				break
			}
			w.t.Fatalf("no quiescence: %d accept calls neither parked nor resolved", called)
		}
		runtime.Gosched()
		time.Sleep(200 * time.Microsecond)
	}
	pc = map[string]string{}
	for id, l := range w.ls {
		switch l.state {
		case "called":
			pc[id] = "parked"
		default:
			pc[id] = l.state
		}
	}
	return pc
}

func c18RetKind(r c18Res) string {
	switch {
	case r.err == nil:
		return "conn"
	case errors.Is(r.err, net.ErrClosed):
		return "closed"
	default:
		return "err"
	}
}

func (w *c18World) observe(ev *c18Event) {
	ev.PC = w.settle()
	w.lim.counterCond.L.Lock()
	ev.Cur = int(w.lim.counter.current)
	ev.Accepting = w.lim.counter.isAccepting
	ev.Closed = map[string]bool{}
	for id, l := range w.ls {
		ev.Closed[id] = c18IsClosed(l.lim.(*limitListener))
	}
	w.lim.counterCond.L.Unlock()
	ev.Stop, ev.Resume = w.stop, w.resume
	ev.Open = []int{}
	for id := 1; id <= w.nconn; id++ {
		if c := w.inners[id]; c != nil && c.closes.Load() == 0 {
			ev.Open = append(ev.Open, id)
		}
	}
}

// enabled reports whether the external action can be performed in the current
// harness state (used by the random generator and to skip impossible steps of
// TLC behaviours whose internal interleaving the real scheduler did not take).
func (w *c18World) enabled(s c18Step) bool {
	switch s.A {
	case "Accept":
		return w.ls[s.L].state == "idle"
	case "InnerOK":
		return w.ls[s.L].state == "inner" && !c18IsClosed(w.ls[s.L].lim.(*limitListener))
	case "InnerErr":
		return w.ls[s.L].state == "inner"
	case "CloseConn":
		c := w.inners[s.C]
		return c != nil && c.closes.Load() == 0
	case "CloseConnAgain":
		c := w.inners[s.C]
		return c != nil && c.closes.Load() > 0
	case "CloseListener":
		return !c18IsClosed(w.ls[s.L].lim.(*limitListener))
	}
	return false
}

func (w *c18World) do(s c18Step, ev *c18Event) {
	l := w.ls[s.L]
	switch s.A {
	case "Accept":
		l.state = "called"
		l.lastRet = ""
		l.cmd <- struct{}{}
	case "InnerOK":
		w.nconn++
		ic := &c18Conn{id: w.nconn}
		w.inners[w.nconn] = ic
		ev.C = w.nconn
		l.inner.result <- c18Res{conn: ic}
		r := <-l.ret
		if r.err != nil {
			w.t.Fatalf("Accept returned %v for a good inner conn", r.err)
		}
		w.conns[w.nconn] = r.conn
		l.state = "idle"
		l.lastRet = "conn"
	case "InnerErr":
		l.inner.result <- c18Res{err: errors.New("scripted accept error")}
		r := <-l.ret
		l.state = "idle"
		l.lastRet = c18RetKind(r)
	case "CloseConn", "CloseConnAgain":
		err := w.conns[s.C].Close()
		if s.A == "CloseConnAgain" && !errors.Is(err, net.ErrClosed) {
			ev.Ret = fmt.Sprintf("second close returned %v", err)
		}
		if n := w.inners[s.C].closes.Load(); n != 1 {
			ev.Ret = fmt.Sprintf("inner conn closed %d times", n)
		}
	case "CloseListener":
		_ = l.lim.Close()
	}
}

func (w *c18World) finish() {
	// release everything so that goroutines end
	for _, l := range w.ls {
		_ = l.lim.Close()
	}
	for i := 0; i < 3; i++ {
		w.settleQuiet()
		for _, l := range w.ls {
			if l.state == "inner" {
				l.inner.result <- c18Res{err: net.ErrClosed}
				<-l.ret
				l.state = "idle"
			}
		}
	}
	for _, l := range w.ls {
		close(l.cmd)
	}
}

func c18Run(t *testing.T, out *vhOut, beh, stop, resume int, ids []string, steps []c18Step, gen func(w *c18World) (c18Step, bool)) {
	w := c18New(t, stop, resume, ids)
	ev := c18Event{Ev: "Reset", Beh: beh}
	w.observe(&ev)
	out.Emit(ev)
	i := 0
	for {
		var s c18Step
		if gen != nil {
			var ok bool
			if s, ok = gen(w); !ok {
				break
			}
		} else {
			if i >= len(steps) {
				break
			}
			s = steps[i]
			i++
			if s.A == "TryInc" || !w.enabled(s) {
				continue
			}
		}
		ev := c18Event{Ev: s.A, L: s.L, C: s.C, Beh: beh}
		w.do(s, &ev)
		w.observe(&ev)
		if s.L != "" && ev.Ret == "" {
			ev.Ret = w.ls[s.L].lastRet
		}
		out.Emit(ev)
	}
	ev = c18Event{Ev: "End", Beh: beh}
	w.observe(&ev)
	out.Emit(ev)
	w.finish()
}

func TestVerifC18Stepper(t *testing.T) {
	out := vhOpen(t)
	rng := rand.New(rand.NewSource(vhSeed()))
	ids := []string{"l1", "l2", "l3"}
	beh := 0
	if p := os.Getenv("VERIF_IN"); p != "" {
		var in []struct {
			Stop   int       `json:"stop"`
			Resume int       `json:"resume"`
			Steps  []c18Step `json:"steps"`
		}
		vhReadJSON(t, p, &in)
		for _, b := range in {
			c18Run(t, out, beh, b.Stop, b.Resume, ids, b.Steps, nil)
			beh++
		}
	}
	nrand := vhEnvInt("VERIF_NRANDOM", 100)
	for k := 0; k < nrand; k++ {
		stop := 1 + rng.Intn(4)
		resume := rng.Intn(stop + 1)
		n := 10 + rng.Intn(40)
		cnt := 0
		gen := func(w *c18World) (c18Step, bool) {
			if cnt >= n {
				return c18Step{}, false
			}
			cnt++
			for try := 0; try < 50; try++ {
				var s c18Step
				switch r := rng.Intn(100); {
				case r < 35:
					s = c18Step{A: "Accept", L: ids[rng.Intn(len(ids))]}
				case r < 60:
					s = c18Step{A: "InnerOK", L: ids[rng.Intn(len(ids))]}
				case r < 67:
					s = c18Step{A: "InnerErr", L: ids[rng.Intn(len(ids))]}
				case r < 90:
					if w.nconn == 0 {
						continue
					}
					s = c18Step{A: "CloseConn", C: 1 + rng.Intn(w.nconn)}
				case r < 96:
					if w.nconn == 0 {
						continue
					}
					s = c18Step{A: "CloseConnAgain", C: 1 + rng.Intn(w.nconn)}
				default:
					s = c18Step{A: "CloseListener", L: ids[rng.Intn(len(ids))]}
				}
				if w.enabled(s) {
					return s, true
				}
			}
			return c18Step{}, false
		}
		c18Run(t, out, beh, stop, resume, ids, nil, gen)
		beh++
	}
}

// TestVerifC18Stress: free-running acceptors and closers.  Observed: the
// maximum number of simultaneously used slots (open conns + pending inner
// accepts, counted by the fake inner listener and conns themselves) and the
// quiescent counter.
func TestVerifC18Stress(t *testing.T) {
	out := vhOpen(t)
	rounds := vhEnvInt("VERIF_NSTRESS", 10)
	for round := 0; round < rounds; round++ {
		rng := rand.New(rand.NewSource(vhSeed()*977 + int64(round)))
		stop := 2 + rng.Intn(6)
		resume := rng.Intn(stop + 1)
		lim, err := New(&Config{Logger: slog.New(slog.NewTextHandler(io.Discard, nil)), Stop: uint64(stop),
			Resume: uint64(resume)})
		if err != nil {
			t.Fatal(err)
		}
		var used, maxUsed, accepted atomic.Int64
		bump := func(d int64) {
			v := used.Add(d)
			for {
				m := maxUsed.Load()
				if v <= m || maxUsed.CompareAndSwap(m, v) {
					break
				}
			}
		}
		const nl = 3
		const perL = 300
		var wg sync.WaitGroup
		connCh := make(chan net.Conn, 1024)
		for li := 0; li < nl; li++ {
			in := &c18StressInner{bump: bump}
			l := lim.Limit(in, &dnsserver.ServerInfo{Name: fmt.Sprintf("s%d", li), Addr: "a", Proto: agd.ProtoDoT})
			wg.Add(1)
			go func() {
				defer wg.Done()
				for i := 0; i < perL; i++ {
					c, aerr := l.Accept()
					if aerr != nil {
						continue
					}
					accepted.Add(1)
					connCh <- c
				}
			}()
		}
		var cwg sync.WaitGroup
		for k := 0; k < 4; k++ {
			cwg.Add(1)
			go func(k int) {
				defer cwg.Done()
				r := rand.New(rand.NewSource(int64(k)))
				for c := range connCh {
					if r.Intn(4) == 0 {
						runtime.Gosched()
					}
					_ = c.Close()
					if r.Intn(3) == 0 {
						_ = c.Close()
					}
				}
			}(k)
		}
		done := make(chan struct{})
		go func() { wg.Wait(); close(done) }()
		hung := false
		select {
		case <-done:
		case <-time.After(60 * time.Second):
			hung = true
		}
		if !hung {
			close(connCh)
			cwg.Wait()
		}
		lim.counterCond.L.Lock()
		cur, acc := int(lim.counter.current), lim.counter.isAccepting
		lim.counterCond.L.Unlock()
		out.Emit(map[string]any{"ev": "Summary", "beh": round, "stop": stop, "resume": resume,
			"maxUsed": int(maxUsed.Load()), "finalCur": cur, "finalAccepting": acc, "finalUsed": int(used.Load()),
			"accepted": int(accepted.Load()), "hung": hung, "expected": nl * perL})
		if hung {
			return
		}
	}
}

type c18StressInner struct {
	bump func(int64)
	n    atomic.Int64
}

func (i *c18StressInner) Accept() (net.Conn, error) {
	// the slot is in use from the moment the inner accept is pending
	i.bump(1)
	k := i.n.Add(1)
	if k%7 == 0 {
		runtime.Gosched()
		i.bump(-1)
		return nil, errors.New("scripted accept error")
	}
	return &c18StressConn{bump: i.bump}, nil
}
func (i *c18StressInner) Close() error   { return nil }
func (i *c18StressInner) Addr() net.Addr { return &net.TCPAddr{} }

type c18StressConn struct {
	net.Conn
	bump   func(int64)
	closed atomic.Bool
}

func (c *c18StressConn) Close() error {
	if c.closed.CompareAndSwap(false, true) {
		c.bump(-1)
	}
	return nil
}
func (c *c18StressConn) RemoteAddr() net.Addr { return &net.TCPAddr{} }

// c18IsClosed reads the listener's closed flag whatever its representation (a
// plain bool under the limiter's lock, or an atomic): the harness reads it at
// quiescent points only.
func c18IsClosed(l *limitListener) bool {
	v := reflect.ValueOf(l).Elem().FieldByName("isClosed")
	p := unsafe.Pointer(v.UnsafeAddr())
	if v.Kind() == reflect.Bool {
		return *(*bool)(p)
	}
	if ab, ok := reflect.NewAt(v.Type(), p).Interface().(*atomic.Bool); ok {
		return ab.Load()
	}
	panic(fmt.Sprintf("limitListener.isClosed has type %s", v.Type()))
}
