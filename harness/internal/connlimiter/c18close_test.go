//go:build verif

// C18, "closing a listener releases its waiters", at the one moment the
// quiescent-point stepper cannot reach: a Close that starts while an Accept
// has found the counter full and is about to go to sleep.  The limiter's own
// debug record "accept waiting" is written exactly there (under the limiter's
// lock, before the wait): the logging handler of this harness starts the Close
// in another goroutine at that moment and gives it time.  ConnLimiter.tla:
// CloseReleasesWaiters.
package connlimiter

import (
	"context"
	"log/slog"
	"net"
	"sync"
	"testing"
	"time"

	"github.com/AdguardTeam/AdGuardDNS/internal/dnsserver"
)

type c18CloseHook struct {
	mu   sync.Mutex
	fire func()
}

func (h *c18CloseHook) Enabled(context.Context, slog.Level) bool { return true }
func (h *c18CloseHook) WithAttrs([]slog.Attr) slog.Handler         { return h }
func (h *c18CloseHook) WithGroup(string) slog.Handler              { return h }
func (h *c18CloseHook) Handle(_ context.Context, r slog.Record) error {
	if r.Message != "accept waiting" {
		return nil
	}
	h.mu.Lock()
	f := h.fire
	h.fire = nil
	h.mu.Unlock()
	if f != nil {
		f()
	}
	return nil
}

type c18CloseEvent struct {
	Ev       string `json:"ev"`
	Round    int    `json:"round"`
	Fired    bool   `json:"fired"`
	Released bool   `json:"released"`
	Err      string `json:"err"`
	CloseRet bool   `json:"close_returned"`
}

func TestVerifC18CloseWaiter(t *testing.T) {
	out := vhOpen(t)
	rounds := vhEnvInt("VERIF_ROUNDS", 6)
	for round := 0; round < rounds; round++ {
		hook := &c18CloseHook{}
		lim, err := New(&Config{Logger: slog.New(hook), Stop: 1, Resume: 1})
		if err != nil {
			t.Fatal(err)
		}
		inner, err := net.Listen("tcp", "127.0.0.1:0")
		if err != nil {
			t.Fatal(err)
		}
		l := lim.Limit(inner, &dnsserver.ServerInfo{Name: "c18close", Addr: inner.Addr().String(), Proto: dnsserver.ProtoDNS})
		// the one slot is taken by a connection
		cl, err := net.Dial("tcp", inner.Addr().String())
		if err != nil {
			t.Fatal(err)
		}
		first, err := l.Accept()
		if err != nil {
			t.Fatalf("first accept: %v", err)
		}
		ev := c18CloseEvent{Ev: "CloseWaiter", Round: round}
		closed := make(chan struct{})
		hook.mu.Lock()
		hook.fire = func() {
			ev.Fired = true
			go func() { _ = l.Close(); close(closed) }()
			// time for a Close that does not wait for the limiter's lock to run to its end
			time.Sleep(time.Duration(20+10*(round%3)) * time.Millisecond)
		}
		hook.mu.Unlock()
		res := make(chan error, 1)
		go func() { _, aerr := l.Accept(); res <- aerr }()
		select {
		case aerr := <-res:
			ev.Released = true
			if aerr != nil {
				ev.Err = aerr.Error()
			}
		case <-time.After(15 * time.Second):
		}
		select {
		case <-closed:
			ev.CloseRet = true
		case <-time.After(time.Second):
		}
		out.Emit(ev)
		_ = first.Close()
		_ = cl.Close()
		_ = inner.Close()
	}
}

type c18RelEvent struct {
	Ev       string `json:"ev"`
	Round    int    `json:"round"`
	Stop     int    `json:"stop"`
	Fired    bool   `json:"fired"`
	Released bool   `json:"released"`
	Err      string `json:"err"`
	Other    bool   `json:"other_served"`
	OtherErr string `json:"other_err"`
}

// TestVerifC18CloseRelease: an Accept of listener A is about to wait because every slot is taken; before it
// gets the limiter's lock back, BOTH a connection is closed (a slot is released, the waiters are woken) AND
// listener A is closed.  The hook runs under the limiter's lock, so the two goroutines it starts queue up for
// that lock and run, in either order, as soon as the Accept sleeps.  Whatever the order: the Accept returns,
// and it holds no slot afterwards -- another listener of the same limiter serves a new connection.
func TestVerifC18CloseRelease(t *testing.T) {
	out := vhOpen(t)
	rounds := vhEnvInt("VERIF_ROUNDS", 12)
	for round := 0; round < rounds; round++ {
		stop := 1 + round%2
		hook := &c18CloseHook{}
		lim, err := New(&Config{Logger: slog.New(hook), Stop: uint64(stop), Resume: uint64(stop)})
		if err != nil {
			t.Fatal(err)
		}
		innerA, err := net.Listen("tcp", "127.0.0.1:0")
		if err != nil {
			t.Fatal(err)
		}
		innerB, err := net.Listen("tcp", "127.0.0.1:0")
		if err != nil {
			t.Fatal(err)
		}
		lA := lim.Limit(innerA, &dnsserver.ServerInfo{Name: "c18relA", Addr: innerA.Addr().String(), Proto: dnsserver.ProtoDNS})
		lB := lim.Limit(innerB, &dnsserver.ServerInfo{Name: "c18relB", Addr: innerB.Addr().String(), Proto: dnsserver.ProtoDNS})
		var held []net.Conn
		var clients []net.Conn
		for i := 0; i < stop; i++ {
			cl, derr := net.Dial("tcp", innerA.Addr().String())
			if derr != nil {
				t.Fatal(derr)
			}
			clients = append(clients, cl)
			cn, aerr := lA.Accept()
			if aerr != nil {
				t.Fatalf("accept %d: %v", i, aerr)
			}
			held = append(held, cn)
		}
		ev := c18RelEvent{Ev: "CloseRelease", Round: round, Stop: stop}
		hook.mu.Lock()
		hook.fire = func() {
			ev.Fired = true
			first, second := func() { _ = held[0].Close() }, func() { _ = lA.Close() }
			if round%4 >= 2 {
				first, second = second, first
			}
			go first()
			time.Sleep(5 * time.Millisecond)
			go second()
			time.Sleep(15 * time.Millisecond)
		}
		hook.mu.Unlock()
		res := make(chan error, 1)
		go func() {
			cn, aerr := lA.Accept()
			if cn != nil {
				_ = cn.Close()
			}
			res <- aerr
		}()
		select {
		case aerr := <-res:
			ev.Released = true
			if aerr != nil {
				ev.Err = aerr.Error()
			}
		case <-time.After(15 * time.Second):
		}
		// the slot of the closed connection is free: the other listener serves a new connection
		clB, derr := net.Dial("tcp", innerB.Addr().String())
		if derr != nil {
			t.Fatal(derr)
		}
		resB := make(chan error, 1)
		go func() {
			cn, aerr := lB.Accept()
			if cn != nil {
				_ = cn.Close()
			}
			resB <- aerr
		}()
		select {
		case aerr := <-resB:
			ev.Other = aerr == nil
			if aerr != nil {
				ev.OtherErr = aerr.Error()
			}
		case <-time.After(5 * time.Second):
			ev.OtherErr = "no accept within 5 s"
		}
		out.Emit(ev)
		for _, cn := range held {
			_ = cn.Close()
		}
		for _, cn := range clients {
			_ = cn.Close()
		}
		_ = clB.Close()
		_ = lB.Close()
		_ = innerA.Close()
		_ = innerB.Close()
	}
}
