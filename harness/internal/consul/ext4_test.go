//go:build verif

package consul

// EXT4 harness for the rate-limit allow-list refresh.
//
// A world is one real ratelimit.DynamicAllowlist (persistent entries = CIDRs
// around the concrete representatives of the abstract addresses) with a real
// AllowlistUpdater pointed at an httptest endpoint whose behaviour per download
// is a mode of specs/Allowlist.tla (ok / http500 / garbage / notarray / badaddr /
// truncated / reset / null / noaddr / trailing).
//
// TestVerifEXT4Refresh: sequential refresh sequences (behaviours printed by TLC
// and seeded random ones); after every Refresh every representative and a set
// of outsiders are probed with IsAllowed.
// TestVerifEXT4Concurrent (-race): readers call IsAllowed continuously while
// refreshes run; every read is recorded with the number of refreshes completed
// before the call and started before the return.
//
// Nothing is judged here: TLC decides (specs/TraceAllowlist.tla).

import (
	"context"
	"encoding/json"
	"fmt"
	"io"
	"log/slog"
	"math/rand"
	"net/http"
	"net/http/httptest"
	"net/netip"
	"net/url"
	"os"
	"sort"
	"strings"
	"sync"
	"sync/atomic"
	"testing"
	"time"

	"github.com/AdguardTeam/AdGuardDNS/internal/dnsserver/ratelimit"
)

const ext4U = 5

type ext4Coll struct{ n atomic.Int64 }

func (c *ext4Coll) Collect(_ context.Context, _ error) { c.n.Add(1) }

type ext4Metrics struct {
	mu     sync.Mutex
	status error
	set    bool
	size   int
}

func (m *ext4Metrics) SetSize(_ context.Context, n int) { m.mu.Lock(); m.size = n; m.mu.Unlock() }
func (m *ext4Metrics) SetStatus(_ context.Context, err error) {
	m.mu.Lock()
	m.status, m.set = err, true
	m.mu.Unlock()
}

type ext4Doc struct {
	status int
	body   string
	reset  bool
}

type ext4AWorld struct {
	t    *testing.T
	r    *rand.Rand
	n    int
	a, b int               // concretisation parameters
	reps map[int][]netip.Addr
	outs []netip.Addr
	pers []int
	al   *ratelimit.DynamicAllowlist
	upd  *AllowlistUpdater
	coll *ext4Coll
	mtr  *ext4Metrics
	srv  *httptest.Server
	mu   sync.Mutex
	doc  ext4Doc
	hits atomic.Int64
}

type ext4REv struct {
	Ev        string `json:"ev"`
	World     int    `json:"world"`
	Src       string `json:"src"`
	Pers      []int  `json:"pers"`
	Mode      string `json:"mode"`
	List      []int  `json:"list"`
	Ret       string `json:"ret"`
	Probe     []int  `json:"probe"`
	Mixed     []int  `json:"mixed"`
	Stray     []string `json:"stray"`
	Collected bool   `json:"collected"`
	Status    bool   `json:"status"`
	Conc      string `json:"conc"`
	Err       string `json:"err"`
}

type ext4Read struct {
	Ev    string `json:"ev"`
	World int    `json:"world"`
	R     int    `json:"r"`
	IP    int    `json:"ip"`
	Got   bool   `json:"got"`
	V0    int    `json:"v0"`
	V1    int    `json:"v1"`
	Conc  string `json:"conc"`
}

func ext4NewAWorld(t *testing.T, r *rand.Rand, n int, pers []int) *ext4AWorld {
	w := &ext4AWorld{t: t, r: r, n: n, a: 1 + r.Intn(250), b: 1 + r.Intn(250), reps: map[int][]netip.Addr{}, pers: pers,
		coll: &ext4Coll{}, mtr: &ext4Metrics{}}
	for j := 1; j <= ext4U; j++ {
		w.reps[j] = []netip.Addr{
			netip.AddrFrom4([4]byte{10, byte(w.a), byte(j), byte(w.b)}),
			netip.MustParseAddr(fmt.Sprintf("2001:db8:%x::%x:%x", w.a, j, w.b)),
		}
	}
	w.outs = []netip.Addr{
		netip.AddrFrom4([4]byte{10, byte(w.a), 0, byte(w.b)}), netip.AddrFrom4([4]byte{10, byte(w.a), ext4U + 1, byte(w.b)}),
		netip.AddrFrom4([4]byte{10, byte(w.a), 1, byte(w.b) ^ 0x80}), netip.AddrFrom4([4]byte{11, byte(w.a), 1, byte(w.b)}),
		netip.MustParseAddr(fmt.Sprintf("2001:db8:%x::%x:%x", w.a, ext4U+1, w.b)),
		netip.MustParseAddr(fmt.Sprintf("2001:db8:%x:1::1:%x", w.a, w.b)),
		netip.MustParseAddr("127.0.0.1"), netip.MustParseAddr("::1"),
	}
	var cidrs []netip.Prefix
	for _, j := range pers {
		v4, v6 := w.reps[j][0], w.reps[j][1]
		b4 := []int{32, 32, 30, 28, 26}[r.Intn(5)]
		b6 := []int{128, 128, 124, 120}[r.Intn(4)]
		p4, _ := v4.Prefix(b4)
		p6, _ := v6.Prefix(b6)
		cidrs = append(cidrs, p4, p6)
	}
	r.Shuffle(len(cidrs), func(i, j int) { cidrs[i], cidrs[j] = cidrs[j], cidrs[i] })
	w.al = ratelimit.NewDynamicAllowlist(cidrs, nil)
	w.srv = httptest.NewServer(http.HandlerFunc(func(rw http.ResponseWriter, rq *http.Request) {
		w.hits.Add(1)
		w.mu.Lock()
		d := w.doc
		w.mu.Unlock()
		if d.reset {
			if hj, ok := rw.(http.Hijacker); ok {
				c, _, err := hj.Hijack()
				if err == nil {
					c.Close()
					return
				}
			}
			panic(http.ErrAbortHandler)
		}
		rw.Header().Set("Content-Type", "application/json")
		rw.WriteHeader(d.status)
		_, _ = io.WriteString(rw, d.body)
	}))
	t.Cleanup(w.srv.Close)
	u, err := url.Parse(w.srv.URL + "/v1/catalog/service/adguard-dns-allow")
	if err != nil {
		t.Fatal(err)
	}
	w.upd = NewAllowlistUpdater(&AllowlistUpdaterConfig{Logger: slog.New(slog.NewTextHandler(io.Discard, nil)),
		Allowlist: w.al, ConsulURL: u, ErrColl: w.coll, Metrics: w.mtr, Timeout: 5 * time.Second})
	return w
}

func (w *ext4AWorld) record(r *rand.Rand, a netip.Addr) string {
	m := map[string]any{"Address": a.String()}
	if r.Intn(2) == 0 {
		m["Node"] = fmt.Sprintf("node-%d", r.Intn(100))
		m["ServicePort"] = 53
		m["ServiceAddress"] = ""
		m["ServiceTags"] = []string{"dns", "allow"}
	}
	b, _ := json.Marshal(m)
	return string(b)
}

// render produces the document of a mode for the abstract list.
func (w *ext4AWorld) render(r *rand.Rand, mode string, list []int, pad int) ext4Doc {
	var recs []string
	for _, j := range list {
		for _, a := range w.reps[j] {
			recs = append(recs, w.record(r, a))
			if r.Intn(6) == 0 {
				recs = append(recs, w.record(r, a)) // duplicates are harmless
			}
		}
	}
	for i := 0; i < pad; i++ {
		recs = append(recs, w.record(r, netip.AddrFrom4([4]byte{172, 16 + byte(r.Intn(16)), byte(r.Intn(256)), byte(r.Intn(256))})))
	}
	r.Shuffle(len(recs), func(i, j int) { recs[i], recs[j] = recs[j], recs[i] })
	join := func(rs []string) string {
		sep := []string{",", ", ", ",\n  "}[r.Intn(3)]
		return "[" + strings.Join(rs, sep) + "]"
	}
	d := ext4Doc{status: 200, body: join(recs)}
	switch mode {
	case "ok":
	case "http500":
		d.status = []int{500, 503, 404, 403, 204, 301}[r.Intn(6)]
		if r.Intn(2) == 0 {
			d.body = "rpc error making call: No cluster leader"
		}
	case "garbage":
		d.body = []string{"<html><body>502 Bad Gateway</body></html>", "", "{", "[{\"Address\":", "Address=1.2.3.4", "[}"}[r.Intn(6)]
	case "notarray":
		d.body = []string{`{"Address":"1.2.3.4"}`, `"1.2.3.4"`, `{"0":{"Address":"1.2.3.4"}}`, `42`, `true`}[r.Intn(5)]
	case "badaddr":
		bad := []string{`{"Address":"300.1.2.3"}`, `{"Address":"10.0.0.0/8"}`, `{"Address":"example.org"}`, `{"Address":"1.2.3"}`,
			`{"Address":12}`, `{"Address":"fe80::1::2"}`, `{"Address":["1.2.3.4"]}`, `{"Address":" 1.2.3.4"}`}[r.Intn(8)]
		pos := r.Intn(len(recs) + 1)
		if r.Intn(2) == 0 {
			pos = len(recs) // all well-formed records come first
		}
		recs = append(recs[:pos:pos], append([]string{bad}, recs[pos:]...)...)
		d.body = join(recs)
	case "truncated":
		if len(recs) == 0 {
			recs = append(recs, w.record(r, netip.MustParseAddr("192.0.2.1")))
		}
		full := join(recs)
		cut := strings.LastIndex(full, "}") + 1 // every record complete, the array not closed
		if r.Intn(2) == 0 {
			cut = 1 + r.Intn(len(full)-1)
		}
		d.body = full[:cut]
	case "reset":
		d.reset = true
	case "null":
		d.body = []string{"null", " null\n"}[r.Intn(2)]
	case "noaddr":
		extra := []string{`{}`, `{"Address":""}`, `{"Node":"n1","ServicePort":53}`, `{"address2":"1.2.3.4"}`}
		for k := 1 + r.Intn(3); k > 0; k-- {
			pos := r.Intn(len(recs) + 1)
			recs = append(recs[:pos:pos], append([]string{extra[r.Intn(len(extra))]}, recs[pos:]...)...)
		}
		d.body = join(recs)
	case "trailing":
		d.body = join(recs) + []string{" garbage", "]", "{\"Address\":\"10.9.9.9\"}", "\n[{\"Address\":\"10.9.9.9\"}]"}[r.Intn(4)]
	default:
		w.t.Fatalf("EXT4 harness: unknown mode %q", mode)
	}
	return d
}

// probe asks every representative and the outsiders.
func (w *ext4AWorld) probe(e *ext4REv) {
	ctx := context.Background()
	for j := 1; j <= ext4U; j++ {
		n := 0
		for _, a := range w.reps[j] {
			ok, err := w.al.IsAllowed(ctx, a)
			if err != nil {
				e.Err += err.Error() + "; "
			}
			if ok {
				n++
			}
		}
		if n == len(w.reps[j]) {
			e.Probe = append(e.Probe, j)
		} else if n > 0 {
			e.Mixed = append(e.Mixed, j)
		}
	}
	for _, a := range w.outs {
		if ok, _ := w.al.IsAllowed(ctx, a); ok {
			e.Stray = append(e.Stray, a.String())
		}
	}
}

func (w *ext4AWorld) refresh(r *rand.Rand, src, mode string, list []int, pad int, probe bool) *ext4REv {
	d := w.render(r, mode, list, pad)
	w.mu.Lock()
	w.doc = d
	w.mu.Unlock()
	c0, h0 := w.coll.n.Load(), w.hits.Load()
	w.mtr.mu.Lock()
	w.mtr.set, w.mtr.status = false, nil
	w.mtr.mu.Unlock()
	ctx, cancel := context.WithTimeout(context.Background(), 10*time.Second)
	err := w.upd.Refresh(ctx)
	cancel()
	e := &ext4REv{Ev: "Refresh", World: w.n, Src: src, Pers: w.pers, Mode: mode, List: append([]int{}, list...), Ret: "ok",
		Probe: []int{}, Mixed: []int{}, Stray: []string{}}
	if err != nil {
		e.Ret = "err"
		e.Err = err.Error()
		if len(e.Err) > 300 {
			e.Err = e.Err[:300]
		}
	}
	if w.hits.Load() == h0 {
		e.Err += " (the endpoint was not asked)"
		e.Ret = "nohit"
	}
	e.Collected = w.coll.n.Load() > c0
	w.mtr.mu.Lock()
	e.Status = w.mtr.set && w.mtr.status != nil
	if !w.mtr.set {
		e.Err += " (metrics status not set)"
		e.Status = !(e.Ret != "ok") // forces a mismatch
	}
	w.mtr.mu.Unlock()
	if probe {
		w.probe(e)
	}
	body := d.body
	if len(body) > 400 {
		body = body[:400] + "..."
	}
	e.Conc = fmt.Sprintf("status %d reset %v body %s", d.status, d.reset, body)
	return e
}

var ext4Modes = []string{"ok", "http500", "garbage", "notarray", "badaddr", "truncated", "reset", "null", "noaddr", "trailing"}

func ext4Subset(r *rand.Rand) []int {
	s := []int{}
	for j := 1; j <= ext4U; j++ {
		if r.Intn(2) == 0 {
			s = append(s, j)
		}
	}
	return s
}

type ext4AStep struct {
	A    string `json:"a"`
	Mode string `json:"mode"`
	List []int  `json:"list"`
	Pers []int  `json:"pers"`
}

func TestVerifEXT4Refresh(t *testing.T) {
	out := vhOpen(t)
	r := rand.New(rand.NewSource(vhSeed()*6151 + 17))
	n := 0
	if p := os.Getenv("VERIF_IN"); p != "" {
		var behs [][]ext4AStep
		vhReadJSON(t, p, &behs)
		for _, b := range behs {
			if len(b) == 0 {
				continue
			}
			n++
			pers := append([]int{}, b[0].Pers...)
			sort.Ints(pers)
			w := ext4NewAWorld(t, r, n, pers)
			out.Emit(map[string]any{"ev": "Reset", "world": n, "pers": pers, "src": "sim"})
			for _, s := range b {
				if s.A != "RefreshBegin" {
					continue
				}
				l := append([]int{}, s.List...)
				sort.Ints(l)
				out.Emit(w.refresh(r, "sim", s.Mode, l, 0, true))
			}
			out.Emit(map[string]any{"ev": "End", "world": n})
			w.srv.Close()
		}
	}
	for i := vhEnvInt("VERIF_NRANDOM", 30); i > 0; i-- {
		n++
		pers := ext4Subset(r)
		if r.Intn(3) == 0 {
			pers = []int{}
		}
		w := ext4NewAWorld(t, r, n, pers)
		out.Emit(map[string]any{"ev": "Reset", "world": n, "pers": pers, "src": "rand"})
		for k := 4 + r.Intn(12); k > 0; k-- {
			mode := "ok"
			if r.Intn(2) == 0 {
				mode = ext4Modes[r.Intn(len(ext4Modes))]
			}
			out.Emit(w.refresh(r, "rand", mode, ext4Subset(r), r.Intn(3)*r.Intn(20), true))
		}
		out.Emit(map[string]any{"ev": "End", "world": n})
		w.srv.Close()
	}
}

func TestVerifEXT4Concurrent(t *testing.T) {
	out := vhOpen(t)
	seed := vhSeed()*3571 + 5
	r := rand.New(rand.NewSource(seed))
	worlds := vhEnvInt("VERIF_NWORLDS", 3)
	nref := vhEnvInt("VERIF_NREFRESH", 40)
	readers := vhEnvInt("VERIF_READERS", 4)
	keep := vhEnvInt("VERIF_KEEPREADS", 300)
	for n := 1; n <= worlds; n++ {
		pers := ext4Subset(r)
		if len(pers) > 2 {
			pers = pers[:2]
		}
		w := ext4NewAWorld(t, r, n, pers)
		out.Emit(map[string]any{"ev": "Reset", "world": n, "pers": pers, "src": "conc"})
		var started, done atomic.Int64
		stop := make(chan struct{})
		var wg sync.WaitGroup
		reads := make([][]ext4Read, readers)
		for ri := 0; ri < readers; ri++ {
			wg.Add(1)
			go func(ri int) {
				defer wg.Done()
				rr := rand.New(rand.NewSource(seed + int64(1000*n+ri)))
				ctx := context.Background()
				for {
					select {
					case <-stop:
						return
					default:
					}
					j := 1 + rr.Intn(ext4U)
					a := w.reps[j][rr.Intn(2)]
					v0 := int(done.Load())
					ok, _ := w.al.IsAllowed(ctx, a)
					v1 := int(started.Load())
					if len(reads[ri]) < 200000 {
						reads[ri] = append(reads[ri], ext4Read{Ev: "Read", World: n, R: ri, IP: j, Got: ok, V0: v0, V1: v1, Conc: a.String()})
					}
				}
			}(ri)
		}
		rf := rand.New(rand.NewSource(seed + int64(77*n)))
		var revs []*ext4REv
		for k := 0; k < nref; k++ {
			mode := "ok"
			if rf.Intn(4) == 0 {
				mode = ext4Modes[rf.Intn(len(ext4Modes))]
			}
			started.Add(1)
			e := w.refresh(rf, "conc", mode, ext4Subset(rf), 200+rf.Intn(400), true)
			done.Add(1)
			revs = append(revs, e)
			if k%2 == 0 {
				time.Sleep(time.Duration(100+rf.Intn(400)) * time.Microsecond) // lets some reads fall between two refreshes
			}
		}
		close(stop)
		wg.Wait()
		for _, e := range revs {
			out.Emit(e)
		}
		for ri := range reads {
			// reads that overlap a refresh first, then a sample of the others
			var span, rest []ext4Read
			for _, x := range reads[ri] {
				if x.V0 != x.V1 {
					span = append(span, x)
				} else {
					rest = append(rest, x)
				}
			}
			r.Shuffle(len(span), func(i, j int) { span[i], span[j] = span[j], span[i] })
			r.Shuffle(len(rest), func(i, j int) { rest[i], rest[j] = rest[j], rest[i] })
			sel := span
			if len(sel) > keep {
				sel = sel[:keep]
			}
			if m := keep - len(sel) + keep/4; len(rest) > m {
				rest = rest[:m]
			}
			sel = append(sel, rest...)
			for _, x := range sel {
				out.Emit(x)
			}
			out.Emit(map[string]any{"ev": "ReaderStat", "world": n, "r": ri, "total": len(reads[ri]), "spanning": len(span)})
		}
		out.Emit(map[string]any{"ev": "End", "world": n})
		w.srv.Close()
	}
}
