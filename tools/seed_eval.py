#!/usr/bin/env python3
"""seed_eval.py <PID> <mutant dir> <demo package dir> <slug> [--checks C16,C14] [--tier quick]

Confirms a seeded change in a scratch worktree of /repo (compiles; the
repository's tests of the touched packages pass; the demonstration fails with
the change and passes without it), runs the named checks against the changed
tree (VERIF_REPO = the scratch worktree, so /repo itself is never touched) and
stores everything under /verif/seeded/<PID>-<slug>/."""
import json
import os
import re
import shutil
import subprocess
import sys
import time

V = os.path.dirname(os.path.dirname(os.path.abspath(__file__)))
ENV = dict(os.environ, GOFLAGS="", GOPROXY="off", GOSUMDB="off", GOTOOLCHAIN="local")


def sh(cmd, cwd, timeout=1800, env=None):
    p = subprocess.run(cmd, cwd=cwd, env=env or ENV, stdout=subprocess.PIPE, stderr=subprocess.STDOUT, text=True, timeout=timeout)
    return p.returncode, p.stdout


def main():
    pid, src, demopkg, slug = sys.argv[1:5]
    checks = [pid]
    tier = "quick"
    for i, a in enumerate(sys.argv):
        if a == "--checks":
            checks = sys.argv[i + 1].split(",")
        if a == "--tier":
            tier = sys.argv[i + 1]
    wt = "/tmp/se-%s-%s" % (pid.lower(), slug)
    subprocess.run(["git", "-C", "/repo", "worktree", "remove", "--force", wt], stdout=subprocess.DEVNULL, stderr=subprocess.DEVNULL)
    subprocess.check_call(["git", "-C", "/repo", "worktree", "add", "-q", "--detach", wt, "HEAD"])
    meta = {"property": pid, "slug": slug, "base_commit": subprocess.check_output(["git", "-C", "/repo", "rev-parse", "HEAD"], text=True).strip(),
            "ran": []}
    try:
        patch = os.path.join(src, "patch.diff")
        rc, o = sh(["git", "apply", patch], wt)
        if rc:
            raise SystemExit("patch does not apply: " + o)
        touched = sorted(set(os.path.dirname(m) for m in re.findall(r"^\+\+\+ b/(\S+)", open(patch).read(), re.M)))
        meta["touched"] = touched

        def moddir(p):
            return (os.path.join(wt, "internal/dnsserver"), "./" + os.path.relpath(p, "internal/dnsserver")) \
                if p.startswith("internal/dnsserver") else (wt, "./" + p)
        # (a) compiles
        for d in (wt, os.path.join(wt, "internal/dnsserver")):
            rc, o = sh(["go", "build", "./..."], d)
            meta["ran"].append({"cmd": "go build ./... in " + d.replace(wt, "<wt>"), "rc": rc})
            if rc:
                raise SystemExit("does not compile:\n" + o[-2000:])
        # (b) the repository's tests of the touched packages (-run ^Test: examples that need the network are skipped)
        for p in touched:
            d, rel = moddir(p)
            rc, o = sh(["go", "test", "-vet=off", "-count=1", "-run", "^Test", rel], d)
            if rc and "address already in use" in o:
                # the repository's own socket tests race for a free port now and then
                rc, o = sh(["go", "test", "-vet=off", "-count=1", "-run", "^Test", rel], d)
            meta["ran"].append({"cmd": "go test -run ^Test %s" % rel, "rc": rc, "tail": o[-300:]})
            if rc:
                raise SystemExit("existing tests fail with the change in %s:\n%s" % (p, o[-2000:]))
        # demonstration
        # demonstration files: in the root of the mutant dir (they belong to <demo package dir>) and/or in a
        # sub-tree mirroring the repository layout (internal/...)
        demos = []  # (source path, package dir relative to the repository root)
        for root, _, files in os.walk(src):
            for f in files:
                if f.endswith("_test.go"):
                    rel = os.path.relpath(root, src)
                    demos.append((os.path.join(root, f), demopkg if rel == "." else rel))
        if not demos:
            raise SystemExit("no demonstration test file in " + src)
        bypkg = {}
        for path, pkg in demos:
            shutil.copy(path, os.path.join(wt, pkg, os.path.basename(path)))
            bypkg.setdefault(pkg, []).extend(re.findall(r"^func (Test\w+)\(", open(path).read(), re.M))

        def run_demos():
            rc_all, out_all = 0, ""
            for pkg, tests in bypkg.items():
                d, rel = moddir(pkg)
                rc, o = sh(["go", "test", "-vet=off", "-count=1", "-run", "^(" + "|".join(tests) + ")$", rel], d)
                if rc and "address already in use" in o:
                    rc, o = sh(["go", "test", "-vet=off", "-count=1", "-run", "^(" + "|".join(tests) + ")$", rel], d)
                rc_all, out_all = rc_all or rc, out_all + o
            return rc_all, out_all
        rc_with, o_with = run_demos()
        sh(["git", "apply", "-R", patch], wt)
        rc_without, o_without = run_demos()
        sh(["git", "apply", patch], wt)
        for path, pkg in demos:
            os.remove(os.path.join(wt, pkg, os.path.basename(path)))
        tests = sorted(t for ts in bypkg.values() for t in ts)
        meta["demo"] = {"tests": tests, "packages": sorted(bypkg), "with_change_rc": rc_with, "without_change_rc": rc_without,
                        "with_change_tail": o_with[-400:]}
        if rc_with == 0 or rc_without != 0:
            raise SystemExit("demonstration does not discriminate: with=%d without=%d\n%s\n%s" % (rc_with, rc_without, o_with[-1500:], o_without[-1500:]))
        # our checks against the changed tree
        sh(["git", "checkout", "--", "go.work.sum"], wt)
        meta["checks"] = {}
        for ck in checks:
            t0 = time.time()
            env = dict(os.environ, VERIF_REPO=wt, VERIF_TIER=tier)
            rc, o = sh([os.path.join(V, "tools", "vcheck"), ck, "--tier", tier], V, timeout=3600, env=env)
            vio = [l for l in o.splitlines() if l.startswith("VIOLATION")]
            desc = ""
            ls = o.splitlines()
            for i, l in enumerate(ls):
                if l.startswith("VIOLATION") and i + 1 < len(ls):
                    desc = ls[i + 1][:500]
                    break
            und = [l for l in ls if l.startswith("UNDECIDED")]
            meta["checks"][ck] = {"tier": tier, "exit": rc, "violations": len(vio), "first": desc, "undecided": und[:1],
                                  "wall_s": round(time.time() - t0)}
            print("check %s on %s-%s: exit %d, %d violation line(s) %s" % (ck, pid, slug, rc, len(vio), (und[:1] or [""])[0][:200]))
            if desc:
                print("   " + desc[:300])
        out = os.path.join(V, "seeded", "%s-%s" % (pid, slug))
        os.makedirs(out, exist_ok=True)
        shutil.copy(patch, os.path.join(out, "patch.diff"))
        for path, pkg in demos:
            dst = os.path.join(out, os.path.relpath(path, src))
            os.makedirs(os.path.dirname(dst), exist_ok=True)
            shutil.copy(path, dst)
        for f in ("notes.md", "demo.md"):
            if os.path.exists(os.path.join(src, f)):
                shutil.copy(os.path.join(src, f), os.path.join(out, f))
        notes = open(os.path.join(src, "notes.md")).read() if os.path.exists(os.path.join(src, "notes.md")) else ""
        meta["needs"] = notes[:1500]
        meta["detected_by"] = [ck for ck, r in meta["checks"].items() if r["exit"] == 1]
        json.dump(meta, open(os.path.join(out, "meta.json"), "w"), indent=1)
    finally:
        subprocess.run(["git", "-C", "/repo", "worktree", "remove", "--force", wt], stdout=subprocess.DEVNULL, stderr=subprocess.DEVNULL)
        shutil.rmtree(wt, ignore_errors=True)


if __name__ == "__main__":
    main()
