#!/bin/sh
# hooks.baseline_off_cmd: the repository's own suite, no tag, no overlay.
# An external GOWORK keeps the go command from rewriting /repo/go.work.sum.
set -e
cd "$(dirname "$0")/.."
REPO="${VERIF_REPO:-/repo}"
mkdir -p build
printf 'go 1.23.4\n\nuse (\n\t%s\n\t%s/internal/dnsserver\n)\n' "$REPO" "$REPO" > build/go.work
cp "$REPO/go.work.sum" build/go.work.sum
export GOWORK="$PWD/build/go.work" GOFLAGS= GOPROXY=off GOSUMDB=off GOTOOLCHAIN=local
rc=0
(cd "$REPO" && go test -vet=off -count=1 -timeout 25m ./...) || rc=1
(cd "$REPO/internal/dnsserver" && go test -vet=off -count=1 -timeout 25m ./...) || rc=1
exit $rc
