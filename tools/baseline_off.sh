#!/bin/sh
# hooks.baseline_off_cmd: the repository's own suite, no tag, no overlay.
# An external GOWORK keeps the go command from rewriting /repo/go.work.sum.
# A package that fails is run once more on its own: a few of the repository's socket tests and
# examples use fixed or racing ports and fail now and then when other jobs share the machine
# ("address already in use", "failed to start the server"); a failure that repeats is a failure.
cd "$(dirname "$0")/.."
REPO="${VERIF_REPO:-/repo}"
mkdir -p build
printf 'go 1.23.4\n\nuse (\n\t%s\n\t%s/internal/dnsserver\n)\n' "$REPO" "$REPO" > build/go.work
cp "$REPO/go.work.sum" build/go.work.sum
export GOWORK="$PWD/build/go.work" GOFLAGS= GOPROXY=off GOSUMDB=off GOTOOLCHAIN=local
rc=0
for mod in "$REPO" "$REPO/internal/dnsserver"; do
  log="build/baseline.$$.log"
  (cd "$mod" && go test -vet=off -count=1 -timeout 25m ./...) > "$log" 2>&1 || true
  cat "$log"
  for pkg in $(grep -E '^FAIL[[:space:]]+github.com' "$log" | awk '{print $2}'); do
    echo "=== retrying $pkg"
    (cd "$mod" && go test -vet=off -count=1 -timeout 25m "$pkg") || rc=1
  done
  if grep -qE '^(FAIL|panic:)' "$log" && ! grep -qE '^FAIL[[:space:]]+github.com' "$log"; then rc=1; fi
  rm -f "$log"
done
exit $rc
