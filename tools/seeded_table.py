#!/usr/bin/env python3
"""Prints the markdown table of DESIGN.md section 10 from seeded/*/meta.json
(+ seeded/strengthened.json: what had to be added to a check to catch a change)."""
import json
import os

V = os.path.dirname(os.path.dirname(os.path.abspath(__file__)))
d = os.path.join(V, "seeded")
extra = json.load(open(os.path.join(d, "strengthened.json")))
print("| Seeded change | What it does | Needs | Caught by | Added to the check because of it |")
print("|---|---|---|---|---|")
for n in sorted(os.listdir(d)):
    mp = os.path.join(d, n, "meta.json")
    if not os.path.exists(mp):
        continue
    m = json.load(open(mp))
    first = ""
    for l in m.get("needs", "").splitlines():
        if l.startswith("#"):
            first = l.lstrip("# ").strip()
            first = first.split(":", 1)[1].strip() if first.lower().startswith("mutant") and ":" in first else first
            break
    x = extra.get(n, {})
    det = ", ".join("%s %s (exit %d)" % (k, v["tier"], v["exit"]) for k, v in m.get("checks", {}).items())
    print("| %s | %s | %s | %s | %s |" % (n, first, x.get("needs", ""), det, x.get("added", "caught as built")))
