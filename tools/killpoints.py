"""Kill-point enumeration for atomic file replacement (C13, C14).

A child process (a compiled Go test binary in "child" mode) replaces a file.
It is run under `strace -f -e inject=<file syscalls>:signal=SIGKILL:when=N` for
every N (the kill happens at the entry of the N-th matching syscall), after the
file was reset to a known complete OLD version.  After every kill a verifier
(the same binary in "verify" mode) classifies what is on disk.  The events are
validated by TLC against AtomicFile.tla (DiskAlwaysComplete)."""
import os
import re
import shutil
import subprocess

from vlib import Undecided

SYSCALLS = ("openat,open,creat,write,pwrite64,writev,fsync,fdatasync,rename,renameat,renameat2,unlink,unlinkat,"
            "chmod,fchmod,fchmodat,ftruncate,truncate,close,link,linkat")


def run_unkilled(binary, run, env, workdir, logpath, timeout=120):
    cmd = ["strace", "-f", "-qq", "-o", logpath, "-e", "trace=" + SYSCALLS, binary, "-test.run", run, "-test.count=1"]
    p = subprocess.run(cmd, env=env, cwd=workdir, stdout=subprocess.PIPE, stderr=subprocess.STDOUT, text=True,
                       timeout=timeout)
    if p.returncode != 0:
        raise Undecided("unkilled child failed: %s" % p.stdout[-2000:])
    return open(logpath).read().splitlines()


def syscalls_touching(lines, needle):
    """Indexes (1-based, in log order) of traced syscalls whose arguments mention
    the directory of the target file, plus writes/fsyncs/closes on fds opened there."""
    idx = []
    fds = set()
    n = 0
    for ln in lines:
        m = re.match(r"^\d+\s+(\w+)\((.*)", ln)
        if not m:
            continue
        if "resumed>" in ln:
            continue
        n += 1
        name, rest = m.group(1), m.group(2)
        if needle in rest:
            idx.append(n)
            r = re.search(r"=\s+(\d+)\s*$", ln)
            if name in ("openat", "open", "creat") and r:
                fds.add(r.group(1))
        else:
            fm = re.match(r"^(\d+)[,)]", rest)
            if fm and fm.group(1) in fds and name in ("write", "pwrite64", "writev", "fsync", "fdatasync", "close",
                                                     "fchmod", "ftruncate"):
                idx.append(n)
                if name == "close":
                    fds.discard(fm.group(1))
    return idx, n


def kill_at(binary, run, env, workdir, name, k, logpath, timeout=120):
    """SIGKILL at the entry of the k-th invocation of syscall `name` (strace
    keeps one invocation counter per syscall name)."""
    cmd = ["strace", "-f", "-qq", "-o", logpath, "-e", "trace=" + SYSCALLS,
           "-e", "inject=%s:signal=SIGKILL:when=%d" % (name, k),
           binary, "-test.run", run, "-test.count=1"]
    p = subprocess.run(cmd, env=env, cwd=workdir, stdout=subprocess.PIPE, stderr=subprocess.STDOUT, text=True,
                       timeout=timeout)
    killed = p.returncode != 0
    last = ""
    try:
        ls = [l for l in open(logpath).read().splitlines() if re.match(r"^\d+\s+\w+\(", l)]
        last = ls[-1][:200] if ls else ""
    except OSError:
        pass
    return killed, last


def classify_sys(lines, target):
    """Translate strace lines of an unkilled run into Sys events: calls on the
    target itself and on every file that is later renamed onto it (the
    temporary file may live in another directory of the same file system)."""
    tgt = os.path.abspath(target)
    tmps = set()
    for ln in lines:
        m = re.match(r"^\d+\s+(rename|renameat|renameat2)\((.*)", ln)
        if m:
            paths = re.findall(r'"([^"]*)"', m.group(2))
            if len(paths) >= 2 and os.path.abspath(paths[-1]) == tgt:
                tmps.add(os.path.abspath(paths[0]))
    fds = {}
    evs = []
    for ln in lines:
        m = re.match(r"^\d+\s+(\w+)\((.*)", ln)
        if not m or "resumed>" in ln:
            continue
        name, rest = m.group(1), m.group(2)
        tail = ln[ln.rfind(")"):] if ")" in ln else ""
        ret = re.search(r"=\s+(-?\d+)", tail)
        retv = ret.group(1) if ret else None
        if name in ("openat", "open", "creat"):
            pm = re.search(r'"([^"]*)"', rest)
            path = os.path.abspath(pm.group(1)) if pm else ""
            wr = any(f in rest for f in ("O_WRONLY", "O_RDWR", "O_TRUNC", "O_CREAT")) or name == "creat"
            if not wr or (path != tgt and path not in tmps):
                continue
            on = "target" if path == tgt else "tmp"
            if retv and not retv.startswith("-"):
                fds[retv] = on
            evs.append({"ev": "Sys", "op": "open", "on": on, "raw": ln[:160]})
        elif name in ("write", "pwrite64", "writev", "ftruncate"):
            fm = re.match(r"^(\d+)[,)]", rest)
            if fm and fm.group(1) in fds:
                evs.append({"ev": "Sys", "op": "write", "on": fds[fm.group(1)], "raw": ln[:120]})
        elif name in ("fsync", "fdatasync"):
            fm = re.match(r"^(\d+)[,)]", rest)
            if fm and fm.group(1) in fds:
                evs.append({"ev": "Sys", "op": "sync", "on": fds[fm.group(1)], "raw": ln[:120]})
        elif name == "close":
            fm = re.match(r"^(\d+)[,)]", rest)
            if fm:
                fds.pop(fm.group(1), None)
        elif name in ("rename", "renameat", "renameat2"):
            paths = [os.path.abspath(x) for x in re.findall(r'"([^"]*)"', rest)]
            if len(paths) >= 2 and paths[-1] == tgt:
                evs.append({"ev": "Sys", "op": "rename", "on": "tmp", "raw": ln[:220]})
            elif len(paths) >= 2 and paths[0] == tgt:
                evs.append({"ev": "Sys", "op": "rename", "on": "target", "raw": ln[:220]})
        elif name in ("truncate", "unlink", "unlinkat"):
            pm = re.search(r'"([^"]*)"', rest)
            if pm and os.path.abspath(pm.group(1)) == tgt:
                evs.append({"ev": "Sys", "op": name, "on": "target", "raw": ln[:160]})
    return evs


def enumerate_kills(c, binary, child_run, verify, target, env, versions, max_n=400, absent=False, every=1):
    """versions = (old_env, new_env): extra environment of the child for the OLD
    and the NEW version.  verify() -> state string for what is on disk, already
    mapped to old|new|absent|corrupt.  Returns the event list of one scenario."""
    d = os.path.dirname(target)
    old_env, new_env = versions
    bak = target + ".oldbak"

    def clean():
        for fn in os.listdir(d):
            p = os.path.join(d, fn)
            if p not in (bak,) and os.path.isfile(p):
                os.remove(p)

    def reset():
        clean()
        if not absent:
            shutil.copy(bak, target)

    clean()
    if os.path.exists(bak):
        os.remove(bak)
    if not absent:
        e = dict(env)
        e.update(old_env)
        p = subprocess.run([binary, "-test.run", child_run, "-test.count=1"], env=e, cwd=d, stdout=subprocess.PIPE,
                           stderr=subprocess.STDOUT, text=True, timeout=120)
        if p.returncode != 0 or not os.path.exists(target):
            raise Undecided("cannot write the OLD version: %s" % p.stdout[-1500:])
        if verify() != "old":
            raise Undecided("verifier does not recognise the OLD version")
        shutil.copy(target, bak)
    e = dict(env)
    e.update(new_env)
    events = [{"ev": "Begin", "absent": absent}]
    reset()
    lines = run_unkilled(binary, child_run, e, d, os.path.join(c.scratch, "strace_ok.log"))
    sysev = classify_sys(lines, target)
    if not any(s["op"] == "rename" for s in sysev) and not any(s["on"] == "target" for s in sysev):
        raise Undecided("no write or rename on %s seen in the strace log (vacuous)" % target)
    events += sysev
    events.append({"ev": "End", "state": verify()})
    kills = 0
    # every traced system call of the unkilled run is a kill point: line j is
    # the k-th invocation of its syscall name
    points, cnt = [], {}
    tgt_dir = d
    first_rel = None
    for j, ln in enumerate(lines):
        m = re.match(r"^\d+\s+(\w+)\(", ln)
        if not m or "resumed>" in ln:
            continue
        nm = m.group(1)
        cnt[nm] = cnt.get(nm, 0) + 1
        points.append((j, nm, cnt[nm], ln))
        if first_rel is None and (tgt_dir in ln or os.path.basename(target) in ln):
            first_rel = len(points) - 1
    if first_rel is None:
        raise Undecided("the unkilled run never touched %s" % target)
    sel = points if max_n >= len(points) else points[max(0, first_rel - 2):]
    for j, nm, k, ln in sel[::every][:max_n]:
        reset()
        killed, last = kill_at(binary, child_run, e, d, nm, k, os.path.join(c.scratch, "strace_kill.log"))
        if not killed:
            continue  # scheduling moved the call to another invocation index; not a kill point this time
        kills += 1
        events.append({"ev": "Begin", "absent": absent})
        events.append({"ev": "Kill", "n": j + 1, "state": verify(), "absent": absent, "last": last,
                       "at": "%s#%d" % (nm, k)})
    clean()
    if os.path.exists(bak):
        os.remove(bak)
    return events, kills
