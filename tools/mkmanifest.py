#!/usr/bin/env python3
"""Regenerates MANIFEST.json from the table below (one entry per claimed property)."""
import json
import os

V = os.path.dirname(os.path.dirname(os.path.abspath(__file__)))
TRUST = "Trusted: TLC/SANY and the CommunityModules Json reader; the Go projection functions of the harness; "

CLAIMED = {
 "C01": dict(
   tech="TLA+ decision table Dispatch.tla (transport x wire class x QR x opcode x section counts x handler outcome -> admitted wire outcomes, written from the documented treatments) plus an implementation-shaped Recv/Unpack/Accept/Handle/Write listener machine checked exhaustively by TLC with 7 seeded-defect sanity configs; per-line trace validation (TraceDispatch.tla) of the real per-request entry points of all transports driven in-package with arbitrary bytes, and of the real servers over loopback sockets with one deterministic handler, incl. cross-transport comparison of 9 transport variants",
   text="TLC explores the listener machine over nine transports, three wire classes, QR, three opcode classes, 27 section-count combinations and five handler outcomes (8.5k states) and proves AtMostOneResponse, EchoIDAndQuestion, ListenerStaysUp, ImplWithinContract, RejectTreatment, TransportEquivalence and AcceptedAnswered. Every recorded line (quick ~9k, thorough ~230k inputs x lanes; 12/200 queries x 9 transport variants over real sockets, each non-answer followed by a valid probe on the same listener) is validated by TLC against the contract.",
   note=TRUST + "socket-level silence is a bounded time-out; replies are compared modulo TC, OPT, padding and keep-alive (C08's subject); where the documents are silent (handler panic outcome, FORMERR vs NOTIMP when both apply) every reading that keeps the hard clauses is admitted.", ref="6 C01"),
 "C02": dict(
   tech="TLA+ decision tables Filtering.tla (verdict contract from the property statement + composite-shaped decision; blocking-mode shape table) model-checked exhaustively by TLC with 9 defect-variant sanity configs; per-line trace validation (TraceFiltering.tla) of a real filterstorage.Default (HTTP-served index/lists/services, real hashprefix and safe-search filters) at the filter.Interface level and through the real ratelimitmw + mainmw stack with a scripted upstream",
   text="TLC enumerates the abstract verdict product (rule slots custom/rl1/rl2/service x 7 rule classes, 5 safety filters, response-side rules, profile/device switches: 68k states quick, 1.07M thorough) and all 480 blocking-mode shape vectors and proves RewriteWinsOutright, AllowBeatsBlock, BlockBlocks, SafetyOrder, CustomAllowSkipsSafety, RequestBeatsResponse, DisabledMeansUnfiltered, ShapeFollowsMode, TTLIsProfiles and NoUpstreamDataWhenBlocked for the contract and the implementation-shaped decision. Every vector is concretised into rule texts with a known meaning, served over HTTP to a real storage, and the recorded verdicts and written messages are validated line by line.",
   note=TRUST + "exhaustive at the abstract-class level; concrete richness is seeded sampling of rule templates, list order, group switches and decoys ($important/$client/$badfilter and cache hits out of scope); where the statement is ambiguous every reading is admitted.", ref="6 C02"),
 "C03": dict(
   tech="TLA+ decision-table model DeviceAuth.tla (contract + implementation-shaped decision, 5 seeded-defect configs) checked exhaustively by TLC; per-line trace validation of real devicefinder.Default on a real profiledb.Default behind the real ratelimitmw",
   text="TLC enumerates the abstract product of protocol, DoH path id, userinfo, TLS server name, EDNS CPE option, local/remote address classes, server settings and database state (41k factored vectors quick, 13.7M unfactored thorough) and proves the recognition clauses (valid channel, live membership, DoH-only never elsewhere and only with the right password, bad password never recognised, auth failure is anonymous downstream, DNSCrypt anonymous, precedence) for the contract and the implementation-shaped decision. Every factored vector plus seeded unfactored ones is concretised (id lengths and near misses, case flips, nested server names, human ids, odd paths, real Authorization headers, decoy EDNS options, 4-in-6 addresses), executed on a fresh real profile database filled by scripted syncs, and each recorded line (Find result and the RequestInfo the next handler sees) is checked by TLC.",
   note=TRUST + "bcrypt via agdpasswd; the transport servers' filling of dnsserver.RequestInfo is assumed; the contract is a set where the documentation leaves the choice open (never recognising anybody).", ref="6 C03"),
 "C04": dict(
   tech="TLA+ spec CacheCore.tla (keyed TTL cache over quarter-second time) model-checked by TLC with two sanity configs; TLC-generated and seeded histories run through the real simple and ECS-aware cache middlewares under a virtual clock, each query also answered by a cold instance; traces validated by TLC (TraceCacheCore.tla)",
   text="TLC checks HitEqualsFresh, TTLBound, NothingAfterExpiry and OnlyCacheable over all histories of 3 keys within a 4 s horizon in quarter-second steps; the real middlewares are then driven through histories of queries (names shared across qtype/qclass/DO variants, mixed case, AD/CD bits, every answer class the property lists plus non-cacheable ones) interleaved with clock advances landing around expiry; TLC explains every hit by a live entry stored for the same key, equal to what a cold instance answers now, with every served TTL bounded by ceil(original - age); fromCacheItem of both caches is exercised at every quarter second of an item's life.",
   note=TRUST + "overlay rewrite of time.Now/Since in cache.go, ecscache/cache.go and bluele/gcache to a virtual clock (fails closed); scripted upstream = function of (name, qtype, qclass, DO) that echoes EDNS/DO like a resolver; cacheability oracle per the property's list.", ref="6 C04"),
 "C05": dict(
   tech="TLA+ spec EcsCache.tla (two stores, clients with family/location/ECS option kinds, subnet-dependent upstream) model-checked by TLC with two sanity configs; histories through the real NewHandlers stack with the ECS cache and a recording upstream; per-event validation by TLC (TraceEcsCache.tla)",
   text="TLC explores every history of queries from clients of 2-3 locations x 2 families x 4 ECS option kinds over scoped and unscoped questions and checks that the forwarded subnet is the coarse one or the zero prefix, that opted-out clients get /0 and never a scoped answer, that an answer scoped to a subnet is only served to clients mapped to that subnet and family, echo-iff-valid and FORMERR for malformed options. The real stack (ratelimitmw ECS/location parsing + ecscache) is driven with 7 clients whose address, supplied subnet and GeoIP subnet are pairwise different; the upstream fake records the option it receives and encodes the subnet in scoped answers so that every response reveals which subnet it was made for.",
   note=TRUST + "fake GeoIP table; C05 is claimed for cache.type ecs only; when the option's own location is unknown the client's location or the zero prefix are both accepted.", ref="6 C05"),
 "C06": dict(
   tech="TLA+ spec BufferReuse.tla (pooled buffers with stale tails, bounded decode) model-checked by TLC with a sanity config; crafted truncated / over-declaring messages delivered through every real receive path (UDP, TCP, DoT, DoQ, DoH POST/GET, upstream UDP/TCP replies) to a warm instance flooded with sentinel traffic and to a fresh one; pairs validated by TLC (TraceBufferReuse.tla)",
   text="TLC enumerates all sequences of 3 messages with every declared/carried length over 2 pooled buffers and proves HistoryIndependence and NoForeignRecord when decoding is bounded by the bytes received, and finds the violation when it is bounded by the buffer capacity. On the real code the same bytes (bare header declaring a question, question cut inside its name, question declaring an OPT / answer it does not carry, OPT cut in its RDATA, controls) are sent over each transport to a server whose pooled buffers hold sentinel questions, OPT records and LEAK filler, and to a fresh server; replies and the request seen by the handler must be identical and free of sentinel data. Likewise for UpstreamPlain against a fake upstream sending raw replies.",
   note=TRUST + "sync.Pool reuse is non-deterministic: the warm instance is flooded concurrently (GOMAXPROCS 2) and every pair repeated; DNSCrypt payloads cannot be truncated on the wire by the client library (its path shares serveDNS).", ref="6 C06"),
 "C07": dict(
   tech="TLA+ spec MsgPool.tla (ownership of pooled objects across New / Clone / Dispose) model-checked by TLC with two sanity configs; random clone / rewrite / dispose histories on the production Cloner with real object addresses validated by TLC (TraceMsgPool.tla); concurrent-vs-sequential differential of the full handler stack behind a real UDP/TCP server under the race detector",
   text="TLC checks NoAlias, NoUseAfterFree and NoDoublePut over all sequences of creating, cloning and disposing 3 messages over 4 objects, and shows that a clone sharing one object with its source, or a double dispose, is caught. On the real Cloner, histories over messages with every special-cased record type (A, AAAA, CNAME, HTTPS with all SVCB parameters, MX, PTR, SRV, TXT, SOA, OPT with options) and some others log the addresses of the message, its records and their pooled buffers; TLC replays them, requiring that a clone equals its source, shares no object with any live message, and that no other live message's content changes at any step. Eight concurrent clients bound to distinct loopback addresses (four profiles with different blocking modes and TTLs, plus anonymous) query a real plain-DNS server running the real NewHandlers stack with the production cloner as disposer and the ECS cache; each response must carry its own ID and question and equal the response the same request gets alone.",
   note=TRUST + "object identity = addresses (zero-size values excluded); data-race freedom is the Go race detector's verdict (a race between repository frames is reported as a violation); upstream TTLs are excluded from the concurrent/sequential comparison.", ref="6 C07"),
 "C08": dict(
   tech="TLA+ decision-table spec (Normalize.tla: limit, truncation, OPT echo, padding, keep-alive as clause operators + implementation-shaped normalisation with 8 defect flags) exhaustively model-checked with TLC over the abstract product; per-line trace validation (TraceNormalize.tla, MIN=512/MAX=65535) of packed bytes produced by the real response writers in-package and of bytes received from the real UDP/TCP/DoT/DoH/DoQ/DNSCrypt servers",
   text="exhaustive over 7 transports x 97 request EDNS settings x configured maxima x 540 handler responses in abstract size units (524,770 states, 8 invariants: Replied, WireLenWithinLimit, TruncatedMeansEmptyAnswerAndTC, DroppedOnlyWhenNeeded, OPTEchoed, PaddingOnlyWhenAsked, KeepAliveOnlyWhenAsked, LimitSane; 8 seeded-defect sanity configs); every recorded real execution (2.4k quick / 52k thorough) is checked by TLC against the same clauses with the limit computed by the spec.",
   note=TRUST + "exact wire sizes are outside the abstract model: real packed/received lengths are measured at limit-1/limit/limit+1 for every occurring limit and judged per line; DoQ in-package mirrors the tail of handleQUICStream (real path at socket level); the DNSCrypt limit applies to the DNS message (the encrypted datagram, padded by the third-party library, is recorded only); socket level uses advertised sizes <= 16384 and non-zero configured maxima.", ref="6 C08"),
 "C09": dict(
   tech="TLA+ spec RateLimit.tla (sliding-window-log contract + implementation-shaped ring in an expiring map, refinement invariant ExactWindow) model-checked by TLC with a sanity config; exhaustive timestamp sequences on the real RequestCounter and TLC-generated / seeded event sequences on the real Backoff and ratelimitmw under a virtual clock; decisions validated by TLC (TraceRateLimit.tla)",
   text="TLC checks over all event sequences within the bounds that the ring-based implementation decides exactly like the sliding-window log (no early drop, no late pass), that buckets are isolated, allow-listed clients are never dropped and ANY is always dropped; the sanity config shows the pinned tree's expiring-map defect. On the real code: every non-decreasing timestamp sequence of length 6-8 over a 6-tick horizon for L, I in 1..3 on RequestCounter.Add; sequences with equal timestamps, gaps of I-1/I/I+1, response sizes of 0-2 estimates, ANY, an allow-listed address and addresses sharing a subnet key on Backoff; and requests through the real ratelimitmw with the real Backoff and profiles carrying their own limiter (inside / outside their client subnets), where a drop must also be silent and stop the pipeline.",
   note=TRUST + "virtual clock by overlay rewrite of backoff.go, agd/ratelimit.go and patrickmn/go-cache (fails closed); the back-off clause (hit record lives backoff_duration from its first hit) is taken from the code because the statement leaves its timing open; refuse-ANY is treated as part of the global limiter (a profile's own limiter counts ANY like any other query).", ref="6 C09"),
 "C10": dict(
   tech="TLA+ decision table and pipeline model Access.tla checked exhaustively by TLC (+4 defect-variant sanity configs); per-line trace validation (TraceAccess.tla) of the real access.Global / access.DefaultProfile and of requests through real dnssvc.NewHandlers handlers with recording fakes",
   text="TLC enumerates all 576 abstract access vectors x pipeline stages and checks blocked <=> contract, blocked leaves no trace, allow overrides block, exceptions unblock, unblocked is processed; every realisable vector (294) is concretised (overlapping prefixes incl. /0, /31, /32, IPv6, v4-mapped and zoned clients, ASNs, rule variants, mixed case) and validated against the real code both at unit level and through the full handler stack, where the effect set (written, resolved, filtered, cached, logged, billed, rulestat, dnsdb) is observed with recording fakes.",
   note=TRUST + "contract written from the property text and docs; the Go abstraction function (bitwise subnet membership, ASN equality, small rule matcher) and recording fakes; cache effect read from the cache's Prometheus metrics; EDNS options, root name, CHAOS class and special domains excluded.", ref="6 C10"),
 "C11": dict(
   tech="TLA+ spec HashPrefix.tla (contract over names from the property; implementation-shaped layer over hash prefix/rest pairs) checked exhaustively by TLC with 7 seeded-defect sanity configs; TLC-generated and seeded Reset/Lookup/PrefixQuery sequences executed on the real hashprefix.Storage, Filter (file and HTTP refresh, cold and cached), Matcher and the preservice TXT middleware; every event validated by TLC (TraceHashPrefix.tla) with SHA-256 computed by the harness; a request parked between matching and caching while the list is reset (gate laboratory, TraceFilterCache.tla)",
   text="TLC enumerates every name of up to 6 labels over {a, blogspot, com, co, uk} against lists drawn from 12 names at the suffix and four-label cut-offs (ICANN, private and unmanaged suffixes; a hash table in which distinct names share the two-byte prefix), every set of up to 3 of 13 prefix strings (valid, legacy, upper case, bad length, non-hex) and every Reset order, and proves MatchIffListed, PrefixQueryExact, MalformedRefused and ResetIsTotal. The same actions with real public suffixes, real SHA-256 prefix collisions and realistic list texts are executed on the real Storage, Filters, Matcher and middleware and TLC judges every observation, including the storage content after each Reset.",
   note=TRUST + "the harness's list-text writer and crypto/sha256; the spec's PSL entries are cross-checked against golang.org/x/net/publicsuffix for every host used (wildcard/exception rules not modelled); 'the public suffix' is read as the registry (ICANN) suffix.", ref="6 C11"),
 "C12": dict(
   tech="TLA+ spec FilterCache.tla (request = lookup; compute; store against refresh = swap; clear, with the lock discipline and re-shaping as parameters) model-checked by TLC with two sanity configs; differential twin histories on two real filter storages (all result caches on vs none effective) and gated request-vs-refresh interleavings on the real hashprefix.Filter; events validated by TLC (TraceFilterCache.tla)",
   text="TLC explores all interleavings of 2 requesters x 3 requests with 2 refreshes and checks that a served result is shaped for the one who asked and that no request starting after a refresh returned is served a result computed with the old list; the sanity configs show that the missing lock and the un-reshaped hit of the pinned hash-prefix filter are expressible. On the real code, the same seeded history of queries from 4 profiles (different blocking modes, TTLs, list selections, custom rules; A/AAAA/HTTPS; DO/CD/AD/EDNS variants) interleaved with refreshes of rule lists, services, safe search and hash-prefix lists and custom-rule updates runs on a cache-enabled storage and on a twin in which no cache can take effect; every request-side and response-side result must agree. A gate inside the hash-prefix filter's cache parks a request between compute and store while the refresh runs; a fresh request afterwards must see the new list.",
   note=TRUST + "the twin disables rule-list/service caches and clears every managed cache before each query; rule lists without client-specific modifiers; the gated interleaving is exercised on hashprefix.Filter only (rule-list and safe-search filters are covered by the twin histories and by the model's lock discipline).", ref="6 C12"),
 "C13": dict(
   tech="TLA+ model FilterRefresh.tla of the refresh round (fetch / atomic write / compile / swap per list, crash anywhere, accept-stale restart) model-checked by TLC with 9 sanity configs; TLC-generated, systematic and seeded fault sequences replayed on a real filterstorage.Default + hashprefix.Filter against scripted HTTP endpoints producing each fault for real; per-event trace validation by TLC (TraceFilterRefresh.tla); SIGKILL at every file-related system call of a refreshing child (strace) validated against AtomicFile.tla",
   text="TLC explores rounds over 4-6 lists x 10 fault kinds (refused, time-out, status, empty, oversize, truncated, cancelled, invalid index entries) with a crash between any two steps and restarts with the network up or down, checking FaultyKeepsPrevious, OthersPreviousOrNew, ValidIndexEntriesApplied, DiskAlwaysComplete and RestartUsable. The same fault sequences are produced for real by scripted HTTP endpoints against a real storage; what is served is revealed by probe hosts unique to each (list, version) and the cache files are compared byte for byte; every system call of a cache-file replacement is a kill point after which the file must be a complete version and a restarted storage must filter with it.",
   note=TRUST + "strace syscall injection; in-process crashes are process drops between rounds, crashes inside a round are real SIGKILLs validated at file level.", ref="6 C13"),
 "C14": dict(
   tech="TLA+ spec ProfileDB.tla (ghost backend + the six index maps + explicitly scheduled clean-up steps + cache file/restart) model-checked by TLC; TLC-generated and seeded histories replayed on the real profiledb.Default with intercepted clean-up goroutines and a virtual clock; all look-ups probed after every step and validated by TLC (TraceProfileDB.tla); cache-file replacement validated against AtomicFile.tla from strace logs with a SIGKILL injected at every system call",
   text="TLC explores every interleaving of backend mutations (attach/detach/move, linked/dedicated IP and human-id changes and swaps, profile deletion), full and partial syncs, restarts from the cache file, look-ups and the background clean-ups they spawn (each an independently scheduled step) and checks in every state that all four look-ups answer with the owner in the last synchronised data; two sanity configs show the pinned tree's defects are expressible. The same histories are forced on the real database (clean-ups queued by an overlay rewrite and run when the schedule says), every probe of every key after every step is checked by TLC against the oracle, a restart must restore every profile/device field (structural deep comparison over randomised settings), and every system call of the cache-file replacement is a kill point after which the file must load as a complete version.",
   note=TRUST + "the scripted Storage delivers whole dirty profiles like backendpb; regex overlay rewrites of profiledb.go (time.Now -> VerifNow, `go db.remove*` -> VerifGo) fail closed (exit 2) if the source shape changes; strace syscall injection; auto-device creation not modelled.", ref="6 C14"),
 "C15": dict(
   tech="TLA+ decision table QueryLog.tla and writer-interleaving model QueryLogFile.tla checked exhaustively by TLC (+ sanity variants); per-line trace validation of real ratelimitmw -> mainmw -> querylog.FileSystem executions and of strace-recorded write(2) calls plus file read-back; billing records across failed, overlapping uploads on the real RuntimeRecorder (BillStat.tla behaviours, TraceBillStat.tla)",
   text="TLC enumerates attribution x QueryLog/IPLog flags x fate (processed, debug, failed, undelivered, rate-limited, access-blocked, unknown dedicated) x filter outcome x protocol x request facts and checks LoggedIff, BilledIff, IPIffIPLog, EntryDescribesOwnRequest, NothingForDropped; the file model explores all interleavings of 4 writers x 3 entries (Encode to a private buffer; one atomic append) for FileIsWholeLines. Real requests over the whole product (drop stages driven for real) are validated line by line against the table, and every write system call on the log file plus every line read back from concurrent writers is validated against the file model.",
   note=TRUST + "filter, upstream, device finder and GeoIP are scripted; the documented log format is transcribed from doc/querylog.md; strace for the syscall-level observation (falls back to read-back only, noted in the evidence); real interleavings are sampled, exhaustive interleaving coverage is TLC's.", ref="6 C15"),
 "C16": dict(
   tech="TLA+ spec BillStat.tla model-checked by TLC; TLC-generated and seeded action sequences replayed on the real RuntimeRecorder through a gating Uploader; recorded traces validated by TLC (TraceBillStat.tla)",
   text="TLC enumerates every interleaving of Record / reset / upload-ok / upload-fail for 2-3 devices and up to two overlapping refreshes and checks conservation, no-double-count and metadata-latest in every state; the same actions are forced on the real recorder (the Uploader is the gate) and every observed state is checked by TLC against the spec, so a code change that breaks conservation on some interleaving is rejected at the step where it diverges.",
   note=TRUST + "r.records is read under r.mu; the scripted Uploader is the only exit of records; the free-running stress only validates quiescent totals.  "
        "Beyond TLC's bounds: the integer abstraction BillCounter.tla has an inductive invariant (conservation) discharged by Apalache in every run; "
        "its refinement from BillStat.tla is stated, not machine-checked.", ref="6 C16"),
 "C17": dict(
   tech="TLA+ spec Forward.tla (refresh as probe-by-probe then swap, per-upstream back-off ages, free health environment) model-checked by TLC incl. liveness ReturnsAfterRecovery and two sanity configs; TLC-generated and seeded schedules run on the real forward.Handler with scripted upstreams under a virtual clock; traces validated by TLC (TraceForward.tla)",
   text="TLC explores all schedules of health changes (up / servfail / network error / mismatching reply) of 2 mains and 0-1 fallbacks, clock ticks, refresh rounds whose probes interleave with queries, and checks answered-by-chosen-main, fallback exactly once on network error or empty active set, SERVFAIL only if everything tried failed, active = probed-OK outside a refresh, no probe inside the back-off, never demoted without fallbacks, and (under fairness) return after recovery. The real Handler (upstreams replaced in-package by scripted ones; queries also issued from inside a probe's exchange, i.e. between two probes) is driven through those schedules and every probe, refresh result and query (which upstreams saw it, who answered) is explained by the spec.",
   note=TRUST + "upstreams scripted at the forward.Upstream interface; virtual clock by overlay rewrite of healthcheck.go (fails closed); reply validation of the plain upstream client (ID / name / type) is exercised through C06's upstream receive paths.", ref="6 C17"),
 "C18": dict(
   tech="TLA+ specs ConnLimiter.tla (explicit condition variable) and Pipeline.tla model-checked by TLC incl. liveness; action sequences replayed on real limitListeners (inner listener as gate, parked goroutines from runtime.Stack) and on real TCP/DoT servers; traces validated by TLC with silent TryInc steps",
   text="TLC explores all interleavings of accept / park / wake / inner accept / close / double close / listener shutdown for 2-3 listeners and every stop>=resume up to 4 and checks bound, exact counter, hysteresis, no lost wake-up and release of waiters; sanity configs show that the two defects of the pinned tree (Signal, slot taken before the closed check) are expressible. Real limiters are then driven through TLC-generated and random schedules and every quiescent state is matched by TLC against the spec; pipeline bursts on real servers are validated against Pipeline.tla.",
   note=TRUST + "runtime.Stack goroutine states for 'parked in Cond.Wait'; the harness acts at quiescent points, finer interleavings are covered by the model and by free-running stress summaries.  Beyond TLC's bounds: the integer abstraction ConnCounter.tla (counter = open + pending accepts <= stop, all thresholds) has an inductive invariant discharged by Apalache in every run; its refinement from ConnLimiter.tla is stated, not machine-checked.", ref="6 C18"),
 "C19": dict(
   tech="TLA+ decision spec LinkedIP.tla (contract from doc/http.md + RFC 3986 dot-segment removal, and the implementation-shaped shouldProxy rule) enumerated completely by TLC; raw HTTP requests sent to the real handler, every recorded line validated by TLC (TraceLinkedIP.tla)",
   text="TLC enumerates all 6 methods x all paths of up to 5 segments over {linkip, ddns, status, id, empty, ., ..} and proves that the implementation-shaped rule stays inside the contract and that the contract implies the four-shapes / stays-under-prefix clauses; a sanity config shows the pinned tree's rule leaves the contract. Every abstract vector is then concretised (encoded dots, encoded slashes, case variants, forged header subsets, distinct loopback peers), sent raw over TCP to the real handler and TLC checks per line what the recording backend received.",
   note=TRUST + "net/url request-target parsing as the server-side view of the path; an httptest backend.", ref="6 C19"),
 "C20": dict(
   tech="TLA+ decision table Config.tla (68 numeric/duration/size/enum fields x value classes; documented, constructor-precondition and implementation-shaped constraints incl. 4 cross-field relations) checked exhaustively by TLC for all single and pairwise mutations with 3 sanity configs; per-line trace validation (TraceConfig.tla) of the real parseConfig/validate on rendered YAML, accepted configs exercised through the real toInternal conversions and constructors",
   text="TLC enumerates every single and pairwise mutation of the distributed example over 406 (field, class) cells and proves AcceptedImpliesSafe, AcceptedImpliesValid, DocImpliesSafe and RejectedNamesProperty for the implementation-shaped validation; three sanity configs show the pinned tree's gaps are expressible. Every cell (and seeded pairs; every pair in thorough) is rendered as YAML, parsed and validated by the real code, and every accepted configuration is exercised under recover(): the real Backoff (first request must pass, CountResponses with small and large responses, IPv4 and IPv6), connection limiter, caches, dnssvc handlers, a live dnssvc.Service answering UDP, pipelined TCP and DoQ queries, filter storage and forward handler.",
   note=TRUST + "concretisations are seeded representatives per class; 'huge' is bounded where memory is allocated proportionally; booleans and cross-reference strings are not mutated; backend/GeoIP/filter/upstream are fakes behind the exercised handlers.", ref="6 C20"),
}

EXTENSIONS = {
 "EXT1": "Initial.tla / TraceInitial.tla -- the special-domain decisions of the initial middleware (DDR, resolver.arpa, "
         "private relay, Chrome prefetch and Firefox canary names), the pre-service and pre-upstream stages and the set of "
         "pipeline effects per abstract request (66 560 vectors, exhaustive), validated per line against the real "
         "dnssvc.NewHandlers stack",
 "EXT2": "RuleStat.tla / DNSDB.tla (+ trace specs, 3 defective variants each) -- the statistics collectors: one action per "
         "lock region or atomic pointer operation with ghost ledgers of counted / delivered / dropped / served / late hits, "
         "and the 60 480-vector decision table of which responses the DNS database records; TLC-simulated and random action "
         "sequences are stepped on the real rulestat.HTTP (httptest upload endpoint as gate) and dnsdb.Default (overlay "
         "hooks gating Load|add and Swap|all), every step trace-validated; -race stresses judged by TLC on their totals",
 "EXT3": "DNSCheck.tla / RemoteKV.tla (+ trace specs, 6 + 3 defective variants) -- the DNS-check service: a character-level "
         "decision table of which names are check names (label-level contract vs the implementation-shaped rule, web side "
         "agrees with DNS side) and a discrete-time state machine of two nodes with local caches over a shared TTL or LRU "
         "store (WebSeesOwnDNS, visibility and expiry), plus remotekv key namespacing and LRU storage; bound to the real "
         "dnscheck.RemoteKV.Check / ServeHTTP and remotekv.KeyNamespace / Cache by per-line trace validation under a "
         "virtual clock.  Observation (not enforced by default, VERIF_EXT3_CASE=1): the web side compares the Host header "
         "case-sensitively while the DNS side stores under the lower-cased id",
 "EXT4": "BindToDevice.tla / Allowlist.tla (+ trace specs, 6 + 4 defective variants) -- traffic dispatch to the listener "
         "that owns the destination (registration decision sets of Manager.Add / ListenConfig, narrowest-subnet dispatch, "
         "explicit Go-channel semantics with blocked senders / receivers / closers, write-back source address) and the "
         "rate-limit allow-list refresh (download + atomic swap, failed refresh keeps the old list, interval-judged "
         "concurrent readers); stepped at quiescent points on the real Manager / interfaceListener / chanListener / "
         "chanPacketConn (recording connections, loop-back sockets with IP_RECVORIGDSTADDR) and a real AllowlistUpdater "
         "against an httptest endpoint with ten response modes, -race readers.  One finding recorded in "
         "known_findings.json (connection to a closed listener is left open)",
 "EXT5": "Lifecycle.tla / TraceLifecycle.tla (+ 6 defective variants, liveness under fairness) -- server life cycle: Start / "
         "Shutdown decision table, wg-counted requests, Shutdown waits for the work in flight, bounded by its context, and "
         "nothing is accepted or handled after it has begun / returned; bound to real UDP, TCP, DoT, DoH (h2, h3, mixed), DoQ "
         "and DNSCrypt servers by trace validation of gate-handler schedules (silent ShutdownBegin / Accept steps, a "
         "connection-refused witness).  Four findings recorded in known_findings.json (DoH3 and DNSCrypt shutdown paths, "
         "DoT accept loop outside the wait group)",
 "EXT6": "WebSvc.tla / BlockPage.tla / TLSManager.tla (+ trace specs, 8 + 4 + 11 defective variants) -- the web service without the "
         "linked-IP proxy as a decision table (listener x method x path class x Accept-Encoding class x 72 configurations = "
         "163 296 vectors -> status, body source, content type, header set, delegated handler), block-page refresh and service "
         "life cycle as a state machine (failed refresh keeps the page, every server attempted, plain and gzip page swapped "
         "together), and tlsconfig.DefaultManager as a state machine (Add / Refresh per pair, first-match certificate selection, "
         "ticket rotation as read / lock / per-configuration apply, sessions resume exactly where their sealing key is "
         "installed); bound by raw HTTP/1.1 requests to 72 started Services per run, by stepping TLC-generated behaviours on a "
         "real manager with real certificate and ticket files and real TLS 1.2/1.3 handshakes (certificate seen, resumption "
         "across rotations and configurations), and by -race readers judged by interval.  Two findings recorded in "
         "known_findings.json (Refresh stores a nil certificate for an unloadable pair and returns nil; /robots.txt cannot be "
         "overwritten by static content)",
 "EXT7": "RefreshWorker.tla / ConnPool.tla / DebugAPI.tla (+ trace specs, 13 + 11 + 6 defective variants, liveness under fairness) -- "
         "periodic refreshing, the upstream connection pool and the debug API: one action per step of agdservice.RefreshWorker (tick "
         "taken, start sleep, context made, refresh, close(done), ticker stop, shutdown refresh) with NoOverlap, "
         "FinalRefreshIffConfigured, FinalBeforeStop, ErrorDoesNotStopLoop, RefreshContextBounded, ShutdownResult and the "
         "service.Interface contract variant (NoRefreshAfterShutdownReturn); pool.Pool with a ghost ledger created = idle + in use + "
         "closed, explicit time for the idle time-out and the snapshot / send / drain steps of concurrent Get, Put and Close; the "
         "request -> (status, jobs run, results) table of POST /debug/api/refresh and /debug/api/cache/clear.  Bound by overlays "
         "(virtual ticker, timer and clock, three hook calls), gates (Context constructor, Refresher, factory), TLC-generated and "
         "seeded schedules replayed on the real RefreshWorker and Pool with trace validation at quiescent points, and per-line "
         "validation of the requests through the real handler.  Three findings recorded in known_findings.json (Put / Close race "
         "panic, ErrClosed hidden in an errors.Pair, Shutdown does not join the loop)",
 "EXT8": "ConfigFlow.tla / TraceConfigFlow.tla (+ well-formedness run, 7 defective variants) -- the configuration data flow: for "
         "every leaf of the configuration file and the environment, the component-configuration fields it must reach and the "
         "transformation (identity after unit conversion, gated by its own switch, enumeration map, documented zeros), written "
         "from doc/configuration.md, doc/environment.md and the field comments; invariants Reaches, NoCrossTalk, GatedByOwnFlag, "
         "PartitionExact, OrderPreserved, ZeroIsMeaningful over an abstract run with six defect classes.  Bound by differential "
         "taint on the real glue: a build-time overlay captures the configuration handed to 33 constructors; the harness "
         "carries config.dist.yaml through parseConfig, validate, toInternal and the builder steps of cmd.Main that bind no "
         "socket (incl. dnssvc.NewHandlers / New / NewListener) in a loop-back laboratory, varies one leaf, one list or one "
         "switch with a sibling per run (~490 runs), and TraceConfigFlow judges every line and the base run.  Findings recorded "
         "in known_findings.json: ratelimit.refuseany is never read (the code reads refuse_any), "
         "filters.rule_list_refresh_timeout is unused, backend.timeout 0s expires immediately instead of disabling the time-out",
 "EXT9": "GeoIP.tla / TraceGeoIP.tla (+ hand-made world GeoIP_mc.tla, 8 defective / window variants, 'late' and serialised "
         "variants) -- the GeoIP database internal/geoip: Data (which database answers which field, IPv4-mapped normalisation, "
         "/24 and /56 cache keys with exact LRU, host cache, nil vs empty location), SubnetByLocation (decision table exact key -> "
         "top ASN -> country -> zero prefix over derived maps built by the replaceSubnet fold, per family), Refresh (load, two "
         "scans, publication of location maps, country maps, databases + cache clearing, one action per critical section); "
         "invariants LocationsAreValues, CacheAgreesWithDB, CachedIsLookup, ReadersSeeOneVersion, FailedRefreshKeepsOld, "
         "QuiescentConsistent, SubnetContract, SubnetInCountry, DesiredLength, UnknownIsNone.  Bound by real MMDB files (the three "
         "shipped ones and synthetic ones written by a small writer in the harness, each passing the library's Verify; contents "
         "listed by an independent reader), a build-time overlay that makes every f.mu.Lock() of file.go a gate, behaviours "
         "generated by TLC on per-seed random worlds and replayed step by step with pointer identity observed, scripted worlds "
         "and a concurrent leg under the race detector judged by version interval.  Five findings recorded in "
         "known_findings.json (a failed scan leaves nil / half-new derived maps; overlapping refreshes leave the databases of "
         "one with the maps of the other; the top ASN of RU/US/CN/IN is never found; the 178.176.72.0/24 entry for ASN 25159 is "
         "unreachable for RU locations; prefixes narrower than /24 (/56) survive)",
}


def main():
    props = [json.loads(l) for l in open(os.path.join(V, "properties.jsonl"))]
    checks = []
    for pid in sorted(CLAIMED):
        c = CLAIMED[pid]
        checks.append({
            "property_id": pid,
            "quick_cmd": "tools/vcheck %s --tier quick" % pid,
            "thorough_cmd": "tools/vcheck %s --tier thorough" % pid,
            "evidence_file": "/verif/evidence/%s.json" % pid,
            "replay_cmd_template": "tools/vcheck %s --replay {path}" % pid,
            "engine": "vcheck",
            "level_claimed": {"category": c.get("level", "model_checking"), "text": c["text"], "design_ref": c["ref"]},
            "level_note": c["note"], "technique": c["tech"]})
    na = [{"property_id": p["id"],
           "reason": "check not built yet in this round (work in progress, DESIGN.md section 6 describes the planned "
                     "TLA+ spec and binding); it will be claimed once spec, harness and trace validation land"}
          for p in props if p["id"] not in CLAIMED]
    m = {"version": 1, "setup_cmd": "tools/setup.sh",
         "hooks": {"guard": "verif",
                   "enable": "go test -tags verif -overlay <generated overlay.json>: harness files under "
                             "/verif/harness are injected into /repo packages at build time; /repo carries no hook code",
                   "baseline_off_cmd": "tools/baseline_off.sh", "source_commits": [], "add_only": True},
         "engines": [{"name": "vcheck", "path": "tools/vcheck", "serves_properties": sorted(CLAIMED),
                      "kind_free_text": "python driver: TLC exhaustive + simulation + trace validation; Go harnesses "
                                        "injected with go test -overlay"},
                     ] + [{"name": "vcheck-" + k.lower(), "path": "tools/vcheck " + k, "serves_properties": [],
                            "kind_free_text": "specification coverage beyond the listed properties (same driver, same "
                                              "exit-code contract, evidence/%s.json): %s" % (k, v)}
                           for k, v in sorted(EXTENSIONS.items())],
         "checks": checks, "not_applicable": na,
         "notes": "All checks honour VERIF_SEED, VERIF_TIER and VERIF_REPO; exit 2 = the machinery could not decide "
                  "(never a verdict).  known_findings.json lists recorded findings and 'fixed:' entries."}
    json.dump(m, open(os.path.join(V, "MANIFEST.json"), "w"), indent=1)

if __name__ == "__main__":
    main()
