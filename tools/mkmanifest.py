#!/usr/bin/env python3
"""Regenerates MANIFEST.json from the table below (one entry per claimed property)."""
import json
import os

V = os.path.dirname(os.path.dirname(os.path.abspath(__file__)))
TRUST = "Trusted: TLC/SANY and the CommunityModules Json reader; the Go projection functions of the harness; "

CLAIMED = {
 "C03": dict(
   tech="TLA+ decision-table model DeviceAuth.tla (contract + implementation-shaped decision, 5 seeded-defect configs) checked exhaustively by TLC; per-line trace validation of real devicefinder.Default on a real profiledb.Default behind the real ratelimitmw",
   text="TLC enumerates the abstract product of protocol, DoH path id, userinfo, TLS server name, EDNS CPE option, local/remote address classes, server settings and database state (41k factored vectors quick, 13.7M unfactored thorough) and proves the recognition clauses (valid channel, live membership, DoH-only never elsewhere and only with the right password, bad password never recognised, auth failure is anonymous downstream, DNSCrypt anonymous, precedence) for the contract and the implementation-shaped decision. Every factored vector plus seeded unfactored ones is concretised (id lengths and near misses, case flips, nested server names, human ids, odd paths, real Authorization headers, decoy EDNS options, 4-in-6 addresses), executed on a fresh real profile database filled by scripted syncs, and each recorded line (Find result and the RequestInfo the next handler sees) is checked by TLC.",
   note=TRUST + "bcrypt via agdpasswd; the transport servers' filling of dnsserver.RequestInfo is assumed; the contract is a set where the documentation leaves the choice open (never recognising anybody).", ref="6 C03"),
 "C04": dict(
   tech="TLA+ spec CacheCore.tla (keyed TTL cache over quarter-second time) model-checked by TLC with two sanity configs; TLC-generated and seeded histories run through the real simple and ECS-aware cache middlewares under a virtual clock, each query also answered by a cold instance; traces validated by TLC (TraceCacheCore.tla)",
   text="TLC checks HitEqualsFresh, TTLBound, NothingAfterExpiry and OnlyCacheable over all histories of 3 keys within a 4 s horizon in quarter-second steps; the real middlewares are then driven through histories of queries (names shared across qtype/qclass/DO variants, mixed case, AD/CD bits, every answer class the property lists plus non-cacheable ones) interleaved with clock advances landing around expiry; TLC explains every hit by a live entry stored for the same key, equal to what a cold instance answers now, with every served TTL bounded by ceil(original - age); fromCacheItem of both caches is exercised at every quarter second of an item's life.",
   note=TRUST + "overlay rewrite of time.Now/Since in cache.go, ecscache/cache.go and bluele/gcache to a virtual clock (fails closed); scripted upstream = function of (name, qtype, qclass, DO) that echoes EDNS/DO like a resolver; cacheability oracle per the property's list.", ref="6 C04"),
 "C05": dict(
   tech="TLA+ spec EcsCache.tla (two stores, clients with family/location/ECS option kinds, subnet-dependent upstream) model-checked by TLC with two sanity configs; histories through the real NewHandlers stack with the ECS cache and a recording upstream; per-event validation by TLC (TraceEcsCache.tla)",
   text="TLC explores every history of queries from clients of 2-3 locations x 2 families x 4 ECS option kinds over scoped and unscoped questions and checks that the forwarded subnet is the coarse one or the zero prefix, that opted-out clients get /0 and never a scoped answer, that an answer scoped to a subnet is only served to clients mapped to that subnet and family, echo-iff-valid and FORMERR for malformed options. The real stack (ratelimitmw ECS/location parsing + ecscache) is driven with 7 clients whose address, supplied subnet and GeoIP subnet are pairwise different; the upstream fake records the option it receives and encodes the subnet in scoped answers so that every response reveals which subnet it was made for.",
   note=TRUST + "fake GeoIP table; C05 is claimed for cache.type ecs only; when the option's own location is unknown the client's location or the zero prefix are both accepted.", ref="6 C05"),
 "C09": dict(
   tech="TLA+ spec RateLimit.tla (sliding-window-log contract + implementation-shaped ring in an expiring map, refinement invariant ExactWindow) model-checked by TLC with a sanity config; exhaustive timestamp sequences on the real RequestCounter and TLC-generated / seeded event sequences on the real Backoff and ratelimitmw under a virtual clock; decisions validated by TLC (TraceRateLimit.tla)",
   text="TLC checks over all event sequences within the bounds that the ring-based implementation decides exactly like the sliding-window log (no early drop, no late pass), that buckets are isolated, allow-listed clients are never dropped and ANY is always dropped; the sanity config shows the pinned tree's expiring-map defect. On the real code: every non-decreasing timestamp sequence of length 6-8 over a 6-tick horizon for L, I in 1..3 on RequestCounter.Add; sequences with equal timestamps, gaps of I-1/I/I+1, response sizes of 0-2 estimates, ANY, an allow-listed address and addresses sharing a subnet key on Backoff; and requests through the real ratelimitmw with the real Backoff and profiles carrying their own limiter (inside / outside their client subnets), where a drop must also be silent and stop the pipeline.",
   note=TRUST + "virtual clock by overlay rewrite of backoff.go, agd/ratelimit.go and patrickmn/go-cache (fails closed); the back-off clause (hit record lives backoff_duration from its first hit) is taken from the code because the statement leaves its timing open; refuse-ANY is treated as part of the global limiter (a profile's own limiter counts ANY like any other query).", ref="6 C09"),
 "C10": dict(
   tech="TLA+ decision table and pipeline model Access.tla checked exhaustively by TLC (+4 defect-variant sanity configs); per-line trace validation (TraceAccess.tla) of the real access.Global / access.DefaultProfile and of requests through real dnssvc.NewHandlers handlers with recording fakes",
   text="TLC enumerates all 576 abstract access vectors x pipeline stages and checks blocked <=> contract, blocked leaves no trace, allow overrides block, exceptions unblock, unblocked is processed; every realisable vector (294) is concretised (overlapping prefixes incl. /0, /31, /32, IPv6, v4-mapped and zoned clients, ASNs, rule variants, mixed case) and validated against the real code both at unit level and through the full handler stack, where the effect set (written, resolved, filtered, cached, logged, billed, rulestat, dnsdb) is observed with recording fakes.",
   note=TRUST + "contract written from the property text and docs; the Go abstraction function (bitwise subnet membership, ASN equality, small rule matcher) and recording fakes; cache effect read from the cache's Prometheus metrics; EDNS options, root name, CHAOS class and special domains excluded.", ref="6 C10"),
 "C14": dict(
   tech="TLA+ spec ProfileDB.tla (ghost backend + the six index maps + explicitly scheduled clean-up steps + cache file/restart) model-checked by TLC; TLC-generated and seeded histories replayed on the real profiledb.Default with intercepted clean-up goroutines and a virtual clock; all look-ups probed after every step and validated by TLC (TraceProfileDB.tla); cache-file replacement validated against AtomicFile.tla from strace logs with a SIGKILL injected at every system call",
   text="TLC explores every interleaving of backend mutations (attach/detach/move, linked/dedicated IP and human-id changes and swaps, profile deletion), full and partial syncs, restarts from the cache file, look-ups and the background clean-ups they spawn (each an independently scheduled step) and checks in every state that all four look-ups answer with the owner in the last synchronised data; two sanity configs show the pinned tree's defects are expressible. The same histories are forced on the real database (clean-ups queued by an overlay rewrite and run when the schedule says), every probe of every key after every step is checked by TLC against the oracle, a restart must restore every profile/device field (structural deep comparison over randomised settings), and every system call of the cache-file replacement is a kill point after which the file must load as a complete version.",
   note=TRUST + "the scripted Storage delivers whole dirty profiles like backendpb; regex overlay rewrites of profiledb.go (time.Now -> VerifNow, `go db.remove*` -> VerifGo) fail closed (exit 2) if the source shape changes; strace syscall injection; auto-device creation not modelled.", ref="6 C14"),
 "C15": dict(
   tech="TLA+ decision table QueryLog.tla and writer-interleaving model QueryLogFile.tla checked exhaustively by TLC (+ sanity variants); per-line trace validation of real ratelimitmw -> mainmw -> querylog.FileSystem executions and of strace-recorded write(2) calls plus file read-back",
   text="TLC enumerates attribution x QueryLog/IPLog flags x fate (processed, debug, failed, undelivered, rate-limited, access-blocked, unknown dedicated) x filter outcome x protocol x request facts and checks LoggedIff, BilledIff, IPIffIPLog, EntryDescribesOwnRequest, NothingForDropped; the file model explores all interleavings of 4 writers x 3 entries (Encode to a private buffer; one atomic append) for FileIsWholeLines. Real requests over the whole product (drop stages driven for real) are validated line by line against the table, and every write system call on the log file plus every line read back from concurrent writers is validated against the file model.",
   note=TRUST + "filter, upstream, device finder and GeoIP are scripted; the documented log format is transcribed from doc/querylog.md; strace for the syscall-level observation (falls back to read-back only, noted in the evidence); real interleavings are sampled, exhaustive interleaving coverage is TLC's.", ref="6 C15"),
 "C16": dict(
   tech="TLA+ spec BillStat.tla model-checked by TLC; TLC-generated and seeded action sequences replayed on the real RuntimeRecorder through a gating Uploader; recorded traces validated by TLC (TraceBillStat.tla)",
   text="TLC enumerates every interleaving of Record / reset / upload-ok / upload-fail for 2-3 devices and up to two overlapping refreshes and checks conservation, no-double-count and metadata-latest in every state; the same actions are forced on the real recorder (the Uploader is the gate) and every observed state is checked by TLC against the spec, so a code change that breaks conservation on some interleaving is rejected at the step where it diverges.",
   note=TRUST + "r.records is read under r.mu; the scripted Uploader is the only exit of records; the free-running stress only validates quiescent totals.", ref="6 C16"),
 "C17": dict(
   tech="TLA+ spec Forward.tla (refresh as probe-by-probe then swap, per-upstream back-off ages, free health environment) model-checked by TLC incl. liveness ReturnsAfterRecovery and two sanity configs; TLC-generated and seeded schedules run on the real forward.Handler with scripted upstreams under a virtual clock; traces validated by TLC (TraceForward.tla)",
   text="TLC explores all schedules of health changes (up / servfail / network error / mismatching reply) of 2 mains and 0-1 fallbacks, clock ticks, refresh rounds whose probes interleave with queries, and checks answered-by-chosen-main, fallback exactly once on network error or empty active set, SERVFAIL only if everything tried failed, active = probed-OK outside a refresh, no probe inside the back-off, never demoted without fallbacks, and (under fairness) return after recovery. The real Handler (upstreams replaced in-package by scripted ones; queries also issued from inside a probe's exchange, i.e. between two probes) is driven through those schedules and every probe, refresh result and query (which upstreams saw it, who answered) is explained by the spec.",
   note=TRUST + "upstreams scripted at the forward.Upstream interface; virtual clock by overlay rewrite of healthcheck.go (fails closed); reply validation of the plain upstream client (ID / name / type) is exercised through C06's upstream receive paths.", ref="6 C17"),
 "C18": dict(
   tech="TLA+ specs ConnLimiter.tla (explicit condition variable) and Pipeline.tla model-checked by TLC incl. liveness; action sequences replayed on real limitListeners (inner listener as gate, parked goroutines from runtime.Stack) and on real TCP/DoT servers; traces validated by TLC with silent TryInc steps",
   text="TLC explores all interleavings of accept / park / wake / inner accept / close / double close / listener shutdown for 2-3 listeners and every stop>=resume up to 4 and checks bound, exact counter, hysteresis, no lost wake-up and release of waiters; sanity configs show that the two defects of the pinned tree (Signal, slot taken before the closed check) are expressible. Real limiters are then driven through TLC-generated and random schedules and every quiescent state is matched by TLC against the spec; pipeline bursts on real servers are validated against Pipeline.tla.",
   note=TRUST + "runtime.Stack goroutine states for 'parked in Cond.Wait'; the harness acts at quiescent points, finer interleavings are covered by the model and by free-running stress summaries.", ref="6 C18"),
 "C19": dict(
   tech="TLA+ decision spec LinkedIP.tla (contract from doc/http.md + RFC 3986 dot-segment removal, and the implementation-shaped shouldProxy rule) enumerated completely by TLC; raw HTTP requests sent to the real handler, every recorded line validated by TLC (TraceLinkedIP.tla)",
   text="TLC enumerates all 6 methods x all paths of up to 5 segments over {linkip, ddns, status, id, empty, ., ..} and proves that the implementation-shaped rule stays inside the contract and that the contract implies the four-shapes / stays-under-prefix clauses; a sanity config shows the pinned tree's rule leaves the contract. Every abstract vector is then concretised (encoded dots, encoded slashes, case variants, forged header subsets, distinct loopback peers), sent raw over TCP to the real handler and TLC checks per line what the recording backend received.",
   note=TRUST + "net/url request-target parsing as the server-side view of the path; an httptest backend.", ref="6 C19"),
}

def main():
    props = [json.loads(l) for l in open(os.path.join(V, "properties.jsonl"))]
    checks = []
    for pid in sorted(CLAIMED):
        c = CLAIMED[pid]
        checks.append({
            "property_id": pid,
            "quick_cmd": "tools/vcheck %s --tier quick" % pid,
            "thorough_cmd": "tools/vcheck %s --tier thorough" % pid,
            "evidence_file": "/verif/evidence/%s.json" % pid,
            "replay_cmd_template": "tools/vcheck %s --replay {path}" % pid,
            "engine": "vcheck",
            "level_claimed": {"category": c.get("level", "model_checking"), "text": c["text"], "design_ref": c["ref"]},
            "level_note": c["note"], "technique": c["tech"]})
    na = [{"property_id": p["id"],
           "reason": "check not built yet in this round (work in progress, DESIGN.md section 6 describes the planned "
                     "TLA+ spec and binding); it will be claimed once spec, harness and trace validation land"}
          for p in props if p["id"] not in CLAIMED]
    m = {"version": 1, "setup_cmd": "tools/setup.sh",
         "hooks": {"guard": "verif",
                   "enable": "go test -tags verif -overlay <generated overlay.json>: harness files under "
                             "/verif/harness are injected into /repo packages at build time; /repo carries no hook code",
                   "baseline_off_cmd": "tools/baseline_off.sh", "source_commits": [], "add_only": True},
         "engines": [{"name": "vcheck", "path": "tools/vcheck", "serves_properties": sorted(CLAIMED),
                      "kind_free_text": "python driver: TLC exhaustive + simulation + trace validation; Go harnesses "
                                        "injected with go test -overlay"}],
         "checks": checks, "not_applicable": na,
         "notes": "All checks honour VERIF_SEED, VERIF_TIER and VERIF_REPO; exit 2 = the machinery could not decide "
                  "(never a verdict).  known_findings.json lists recorded findings and 'fixed:' entries."}
    json.dump(m, open(os.path.join(V, "MANIFEST.json"), "w"), indent=1)

if __name__ == "__main__":
    main()
