#!/bin/sh
# MANIFEST.setup_cmd: offline preparation.  Builds nothing that needs the
# network: writes the external go.work, SANY-checks every TLA+ module and warms
# the Go build cache for the packages the harnesses are injected into.
set -e
cd "$(dirname "$0")/.."
REPO="${VERIF_REPO:-/repo}"
mkdir -p build evidence/replay
printf 'go 1.23.4\n\nuse (\n\t%s\n\t%s/internal/dnsserver\n)\n' "$REPO" "$REPO" > build/go.work
cp "$REPO/go.work.sum" build/go.work.sum
export GOWORK="$PWD/build/go.work" GOFLAGS= GOPROXY=off GOSUMDB=off GOTOOLCHAIN=local
fail=0
tmp=$(mktemp -d /var/tmp/vf-setup-XXXXXX)
cp specs/*.tla "$tmp"/
for f in "$tmp"/*.tla; do
  if ! (cd "$tmp" && java -cp /opt/veriftools/tla/tla2tools.jar:/opt/veriftools/tla/CommunityModules-deps.jar tla2sany.SANY "$(basename "$f")" >"$tmp/sany.log" 2>&1); then
    echo "SANY failed: $(basename "$f")"; tail -20 "$tmp/sany.log"; fail=1
  fi
done
rm -rf "$tmp"
# warm the build cache (test binaries of the packages we inject into)
(cd "$REPO" && go test -vet=off -count=1 -run '^$' ./internal/... >/dev/null 2>&1 || true)
(cd "$REPO/internal/dnsserver" && go test -vet=off -count=1 -run '^$' ./... >/dev/null 2>&1 || true)
exit $fail
