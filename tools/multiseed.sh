#!/bin/bash
# multiseed.sh [tier] [seeds...]: every claimed check with several seeds; prints one line per run
cd "$(dirname "$0")/.."
tier=${1:-quick}; shift
seeds=${@:-2 3 7 42}
for s in $seeds; do
  for p in C01 C02 C03 C04 C05 C06 C07 C08 C09 C10 C11 C12 C13 C14 C15 C16 C17 C18 C19 C20; do
    out=$(VERIF_SEED=$s tools/vcheck $p --tier $tier 2>&1); rc=$?
    if [ $rc -ne 0 ]; then echo "$out" > /var/tmp/multiseed-fail-$s-$p.log; fi
    echo "seed=$s $p rc=$rc $(echo "$out" | grep -E '^(PASS|FAIL|UNDECIDED|VIOLATION)' | head -2 | tr '\n' ' ' | cut -c1-300)"
  done
done
