#!/bin/bash
# multiseed_ext.sh [tier] [seeds...]: every extension check with several seeds; one line per run
cd "$(dirname "$0")/.."
tier=${1:-quick}; shift
seeds=${@:-1 2 3}
for s in $seeds; do
  for p in $(ls tools/checks | grep '^ext' | sed 's/\.py$//' | tr a-z A-Z | sort -V); do
    out=$(VERIF_SEED=$s tools/vcheck $p --tier $tier 2>&1); rc=$?
    if [ $rc -ne 0 ]; then echo "$out" > /var/tmp/multiseed-fail-$s-$p.log; fi
    echo "seed=$s $p rc=$rc $(echo "$out" | grep -E '^(PASS|FAIL|UNDECIDED|VIOLATION)' | head -2 | tr '\n' ' ' | cut -c1-300)"
  done
done
