"""C11  Safe-browsing lookups are sound and complete for hosts and hash prefixes."""
import json
import os
from concurrent.futures import ThreadPoolExecutor
from vlib import Check, read_ndjson, write_ndjson, main, Undecided

SANITY = [
    ("HashPrefix_sanity.cfg", "MatchIffListed", "parent walk considers three labels only"),
    ("HashPrefix_sanity_suffix.cfg", "MatchIffListed",
     "no suffix cut for private/unmanaged suffixes (the pinned tree's hashableSubdomains)"),
    ("HashPrefix_sanity_merge.cfg", "ResetIsTotal", "Reset merges into the previous map"),
    ("HashPrefix_sanity_prefixonly.cfg", "MatchIffListed", "Matches compares the two-byte prefix only"),
    ("HashPrefix_sanity_https.cfg", "MatchIffListed", "HTTPS questions not filtered"),
    ("HashPrefix_sanity_notrunc.cfg", "PrefixQueryExact", "legacy eight-character prefixes not truncated"),
    ("HashPrefix_sanity_forward.cfg", "MalformedRefused", "malformed prefix forwarded to the next handler"),
]


SNAP_DECL = """package hashprefix

// VerifOnLoad, if set, runs before every load of the map pointer of a Storage.
var VerifOnLoad func()

func verifLoadSuffixes(s *Storage) *suffixMap {
	if f := VerifOnLoad; f != nil {
		f()
	}

	return s.hashSuffixes.Load()
}
"""


def _snapshot(c):
    """Lock-free side: a Reset executed at every load of one reader call (HashSnapshot.tla)."""
    c.tlc_mc("HashSnapshot", "HashSnapshot_mc.cfg", name="reader of 3 prefixes (count + encode pass) against 3 resets, one load per call")
    c.tlc_mc("HashSnapshot", "HashSnapshot_sanity.cfg", expect_violation="AtomicRead", count=False,
             name="sanity: a load per prefix and pass")
    ov = c.rewrite_sub("internal/filter/hashprefix/storage.go",
                       [(r"\bs\.hashSuffixes\.Load\(\)", "verifLoadSuffixes(s)", 1)], decl=SNAP_DECL)
    out, _ = c.go_harness("internal/filter/hashprefix", "^TestVerifC11Snapshot$", files=["c11snap_test.go"], rewrites=ov,
                          env={"VERIF_ROUNDS": 400 if c.thorough else 40})
    ev = read_ndjson(out)
    fired = [e for e in ev if e["fired"]]
    if len(fired) < 40 or not any(e["old"] != e["new"] for e in fired):
        raise Undecided("snapshot harness vacuous: %d calls with a reset inside" % len(fired))
    path = os.path.join(c.scratch, "c11snap.ndjson")
    write_ndjson(path, [{"panicked": e["panicked"], "isold": e["isold"], "isnew": e["isnew"], "fired": e["fired"]} for e in ev])
    r = c.tlc_trace("TraceHashSnapshot", "TraceHashSnapshot.cfg", path)
    if r.tuples("STUCK"):
        raise Undecided("snapshot trace spec stuck")
    bad = r.tuples("NONCONF")
    c.cov["traces_validated_against_impl"] += len(ev) - len(bad)
    for e in ev:
        c.count_case(("snap", e["reader"], e["k"], e["query"], tuple(e["list_old"] or []), tuple(e["list_new"] or [])),
                     nontrivial=e["fired"] and e["old"] != e["new"])
    for t in bad:
        e = ev[int(t[0]) - 1]
        c.violation({"kind": "snapshot", "reader": e["reader"], "panicked": e["panicked"]},
                    "C11 %s with a Reset at its load no. %d (of %d): %s; list before %s, list after %s, query %s -> got %s%s; "
                    "before-answer %s, after-answer %s" % (e["reader"], e["k"], e["loads"], t[1], e["list_old"], e["list_new"],
                                                         e["query"], e["got"], (" PANIC " + e["panic"]) if e["panicked"] else "",
                                                         e["old"], e["new"]), e)


def _reset_race(c):
    """'across list resets', concurrently: a request parked between matching and caching its outcome while the list is
    refreshed (the gate laboratory and the trace specification of C12, hash-prefix filter only)."""
    c.tlc_mc("FilterCache", "FilterCache_sanity_lock.cfg", expect_violation="NoStaleAfterRefresh",
             name="sanity: no common lock between match+store and swap+clear")
    out, _ = c.go_harness("internal/filter/hashprefix", "^TestVerifC12Gate$", files=["c12_test.go"],
                          env={"VERIF_ROUNDS": 20 if c.thorough else 4}, timeout=1200)
    ev = read_ndjson(out)
    if len(ev) < 3:
        raise Undecided("vacuous: %d gate rounds" % len(ev))
    path = os.path.join(c.scratch, "c11gate.ndjson")
    write_ndjson(path, [{"ev": e["ev"], "cached": e.get("cached", ""), "plain": e.get("plain", ""), "cachedr": e.get("cachedr", ""),
                         "plainr": e.get("plainr", "")} for e in ev])
    r = c.tlc_trace("TraceFilterCache", "TraceFilterCache.cfg", path)
    if r.tuples("STUCK"):
        raise Undecided("trace spec stuck")
    c.cov["traces_validated_against_impl"] += len(ev)
    for e in ev:
        c.count_case(("gate", e["what"], e["q"]["host"]), nontrivial=True)
    for t in r.tuples("NONCONF"):
        e = ev[int(t[0]) - 1]
        c.violation({"kind": "reset-race", "what": e["what"].split(":")[0]},
                    "C11 request vs list reset, %s %s: %s; with the result cache=%s | without=%s" % (
                        e["what"], json.dumps(e["q"]), t[1], e.get("cached", "")[:300], e.get("plain", "")[:300]), e)


def run(c: Check):
    th = c.thorough
    # 1. design check: the implementation-shaped layer computes the contract
    c.tlc_mc("HashPrefix", "HashPrefix_mc.cfg", coverage=th,
             name="1 list of <=1 of 12 boundary names x all names <=6 labels over 5 labels x 3 qtypes; all query sets")
    c.tlc_mc("HashPrefix", "HashPrefix_mc_pairs.cfg",
             name="lists of <=2 names (shared hash prefixes) x all names <=4 labels x 5 qtypes; query sets <=2")
    c.tlc_mc("HashPrefix", "HashPrefix_mc2.cfg", name="two lists (isolation), names <=3 labels")
    if th:
        c.tlc_mc("HashPrefix", "HashPrefix_mc_big.cfg", timeout=1500,
                 name="lists of <=2 names x all names <=6 labels x 5 qtypes; query sets <=3")
    c.cov["exhaustive"] = True
    with ThreadPoolExecutor(max_workers=4) as ex:
        futs = [ex.submit(c.tlc_mc, "HashPrefix", cfg, workers=2, expect_violation=inv, name="sanity: " + what)
                for cfg, inv, what in SANITY]
        for f in futs:
            f.result()

    # 2. behaviours from the spec
    behs = c.tlc_sim("HashPrefix", "HashPrefix_sim.cfg", num=800 if th else 50, depth=30 if th else 24)
    inp = os.path.join(c.scratch, "c11_behs.json")
    json.dump(behs, open(inp, "w"))
    steps = os.path.join(c.scratch, "c11_steps.json")

    # 3. real code; 4. trace validation
    out, _ = c.go_harness("internal/filter/hashprefix", "^TestVerifC11Stepper$", files=["c11_test.go"],
                          env={"VERIF_IN": inp, "VERIF_NRANDOM": 4000 if th else 150, "VERIF_C11_STEPS": steps})
    ev = read_ndjson(out)
    out2, _ = c.go_harness("internal/dnssvc/internal/preservice", "^TestVerifC11Middleware$", files=["c11_test.go"],
                           env={"VERIF_C11_STEPS": steps})
    ev2 = read_ndjson(out2)
    nseq = len(json.load(open(steps)))
    if len(behs) < 10 or nseq < len(behs) + 50:
        raise Undecided("too few sequences: %d behaviours, %d sequences" % (len(behs), nseq))
    _validate(c, ev, "hashprefix")
    _snapshot(c)
    _validate(c, ev2, "preservice")
    _coverage(c, ev, ev2)
    _reset_race(c)
    c.cov["rule"] = ("a case is one observation of the real code after a sequence of Resets: a FilterRequest verdict "
                     "(Filter fed from a file / from HTTP, cold and cached), a Storage.Matches sweep, a MatchByPrefix / "
                     "Storage.Hashes / preservice TXT answer, or the storage content after a Reset; non-trivial = the "
                     "list is non-empty and (lookup) the host shares a sub-domain suffix with a listed name or "
                     "(query) the name is under a hash-prefix suffix; distinct by (kind, layer, list, host or strings, "
                     "qtype, list content)")
    c.assumptions += [
        "SHA-256 is collision-free on the names used (hashes are computed by the harness with crypto/sha256)",
        "the Public Suffix List entries of the spec (com, uk, co.uk, org, org.uk ICANN; blogspot.com, co.com, uk.com, "
        "blogspot.co.uk private) are cross-checked against golang.org/x/net/publicsuffix for every host used; "
        "wildcard and exception rules of the PSL are not modelled and no name under one is used",
        "list lines are taken byte for byte as names (Storage.Reset documents lowercased valid names as its input): "
        "a line in mixed case or with a trailing dot is a name of its own",
        "hosts handed to the filter are lowercased and not fully qualified, as internal.Request documents",
        "a legacy eight-character string whose discarded half is not hexadecimal may be refused or truncated",
        "TLC, SANY, CommunityModules Json",
    ]


def _validate(c, ev, what):
    if len(ev) < 100:
        raise Undecided("only %d events recorded by the %s harness" % (len(ev), what))
    path = os.path.join(c.scratch, "c11_%s.ndjson" % what)
    write_ndjson(path, ev)
    r = c.tlc_trace("TraceHashPrefix", "TraceHashPrefix.cfg", path, timeout=1500, heap="6g")
    if r.tuples("STUCK"):
        raise Undecided("trace spec stuck (%s): %s\n%s" % (what, r.tuples("STUCK"), r.out[-2000:]))
    if r.violated:
        raise Undecided("specification-internal invariant %s violated on the %s trace:\n%s" % (
            r.violated, what, r.errtrace()[:3000]))
    if not r.ok:
        raise Undecided("trace validation (%s) did not complete:\n%s" % (what, r.out[-3000:]))
    bad = r.tuples("NONCONF")
    segs = set(e["seg"] for e in ev)
    badsegs = set()
    seen = {}
    for t in bad:
        e = ev[int(t[0]) - 1]
        badsegs.add(e["seg"])
        sig = _signature(e)
        if e["ev"] == "PrefixQuery":
            sig["allowed"] = "+".join(k for k in ("passed", "refused", "answer") if '"%s"' % k in " ".join(t[1:]))
        key = json.dumps(sig, sort_keys=True)
        seen[key] = seen.get(key, 0) + 1
        if seen[key] > 3:
            continue
        # the sequence up to the offending event makes the case replayable
        prefix = [x for x in ev[:int(t[0])] if x["seg"] == e["seg"]]
        c.violation(sig, "C11 %s: %s; spec: %s" % (_describe(e, prefix), sig.get("defect", ""), " ".join(t[1:])[:300]),
                    {"events": prefix, "offending": e, "tlc": t[1:]})
    for k, n in seen.items():
        if n > 3:
            c.notes.append("%d events with signature %s (3 reported)" % (n, k))
    c.cov["traces_validated_against_impl"] += len(segs) - len(badsegs)


def _signature(e):
    sig = {"kind": e["ev"], "layer": e["via"]}
    if e["ev"] == "Lookup":
        sig["observed"] = "matched" if e["matched"] else "not-matched"
        sig["filterable_qtype"] = e["qt"] in ("A", "AAAA", "HTTPS")
        sig["pskind"] = e["pskind"]
        # a host under a private or unmanaged suffix matched by a name that is
        # (part of) the registry suffix
        reg = 1
        for i in range(len(e["host"])):
            if ".".join(e["host"][i:]) in ("com", "uk", "co.uk", "org", "org.uk"):
                reg = len(e["host"]) - i
                break
        if e["matched"] and e["rule"] and len(e["rule"]) <= reg and e["pskind"] in ("private", "unmanaged") \
                and e["host"][len(e["host"]) - len(e["rule"]):] == e["rule"]:
            sig["defect"] = "registry-suffix-hashed-outside-icann"
            del sig["layer"]
    elif e["ev"] == "PrefixQuery":
        sig["observed"] = e["resp"]
        sig["target"] = "none" if e["id"] == "none" else "list"
    return sig


def _describe(e, prefix):
    """Concrete failing input first (the verdict line is cut at 600 characters)."""
    lists = {}
    for x in prefix:
        if x["ev"] == "Reset":
            d = lists.setdefault(x["id"], {"names": [], "text": {}})
            d["names"] = sorted(".".join(n["n"]) for n in x["names"])
            d["text"][x["via"]] = x["text"]
    d = lists.get(e["id"], {"names": [], "text": {}})
    via = {"filter-file": "file", "filter-file-cached": "file", "filter-http": "http"}.get(e["via"], "raw")
    text = d["text"].get(via, d["text"].get("unobserved", ""))
    if e["ev"] == "Lookup":
        return "%s %s on list %s via %s -> matched=%s rule=%s; list = %s (text %r)" % (
            e["hoststr"], e["qt"], e["id"], e["via"], e["matched"], ".".join(e["rule"]), d["names"], text)
    if e["ev"] == "PrefixQuery":
        return "TXT %s via %s -> %s %s next=%s; list %s = %s" % (
            e["qname"], e["via"], e["resp"], e["hashes"][:4], e["next"], e["id"], d["names"])
    if e["ev"] == "Reset":
        return "Reset %s via %s with text %r -> storage holds %d hashes %s" % (
            e["id"], e["via"], e["text"], len(e["obs"]), e["obs"][:3])
    if e["ev"] == "Member":
        return "Storage.Matches true for %s; list %s = %s (text %r)" % (
            [".".join(h) for h in e["hits"]], e["id"], d["names"], text)
    return json.dumps(e)[:300]


def _coverage(c, ev, ev2):
    cur = {}
    need = {"lookup-matched": 0, "lookup-unmatched-filterable": 0, "lookup-other-qtype-listed": 0, "answer-nonempty": 0,
            "refused": 0, "passed": 0, "legacy": 0, "mw-answer": 0, "mw-refused": 0, "mw-passed": 0,
            "shared-prefix-answer": 0, "reset-replaces": 0, "host-5plus-labels": 0, "private-suffix-host": 0}
    for e in ev + ev2:
        k = (e["seg"], e["id"], e["via"] == "unobserved")
        if e["ev"] == "Start":
            continue
        if e["ev"] == "Reset":
            names = sorted(".".join(n["n"]) for n in e["names"])
            if cur.get(k) and names != cur[k]:
                need["reset-replaces"] += 1
            cur[k] = names
            c.count_case(("Reset", e["via"], e["id"], names, e["text"]), nontrivial=bool(names))
            continue
        lst = cur.get(k) or cur.get((e["seg"], e["id"], False)) or cur.get((e["seg"], e["id"], True)) or []
        if e["ev"] == "Lookup":
            related = any(n.endswith(".".join(e["host"][i:])) or ".".join(e["host"]).endswith(n)
                          for n in lst for i in range(len(e["host"])))
            c.count_case(("Lookup", e["via"], e["id"], e["host"], e["qt"], lst), nontrivial=bool(lst) and related)
            filt = e["qt"] in ("A", "AAAA", "HTTPS")
            if e["matched"]:
                need["lookup-matched"] += 1
            elif filt:
                need["lookup-unmatched-filterable"] += 1
            if not filt and any(".".join(e["host"][i:]) in lst for i in range(len(e["host"]))):
                need["lookup-other-qtype-listed"] += 1
            if len(e["host"]) >= 5:
                need["host-5plus-labels"] += 1
            if e["pskind"] == "private":
                need["private-suffix-host"] += 1
        elif e["ev"] == "Member":
            c.count_case(("Member", e["id"], e["hoststr"], lst), nontrivial=bool(lst))
        elif e["ev"] == "PrefixQuery":
            c.count_case(("PQ", e["via"], e["id"], e["strs"], lst), nontrivial=e["id"] != "none" and bool(lst))
            mw = "mw-" if e["via"] == "mw" else ""
            if e["resp"] == "answer" and e["hashes"]:
                need[mw + "answer" if mw else "answer-nonempty"] += 1
                if len(set(h[:4] for h in e["hashes"])) < len(set(e["hashes"])):
                    need["shared-prefix-answer"] += 1
            elif e["resp"] in ("refused", "passed"):
                need[mw + e["resp"]] += 1
            if any(len(s) == 8 for s in e["strs"]) and e["resp"] == "answer" and e["hashes"]:
                need["legacy"] += 1
    c.notes.append("exercised: %s" % json.dumps(need, sort_keys=True))
    empty = [k for k, v in need.items() if v == 0]
    if empty and not c.violations:
        # (with violations recorded a class may be empty because of the defect itself)
        raise Undecided("vacuous run, never exercised: %s" % ", ".join(empty))
    look = [e for e in ev if e["ev"] == "Lookup"]
    c.sample({"lookup": {k: look[len(look) // 2][k] for k in ("id", "hoststr", "qt", "via", "matched", "rule")}})
    pq = [e for e in ev2 if e["ev"] == "PrefixQuery" and e["resp"] == "answer" and e["hashes"]]
    if pq:
        c.sample({"txt": {k: pq[0][k] for k in ("id", "qname", "resp", "hashes", "next")}})
    rs = [e for e in ev if e["ev"] == "Reset" and e["names"]]
    if rs:
        c.sample({"reset": {"id": rs[0]["id"], "via": rs[0]["via"], "text": rs[0]["text"],
                            "names": [".".join(n["n"]) for n in rs[0]["names"]]}})


if __name__ == "__main__":
    main("C11", run)
