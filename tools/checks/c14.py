"""C14  Profile lookups always reflect the latest synchronised data, also after restart."""
import json
import os
from vlib import Check, read_ndjson, write_ndjson, main, Undecided

GO_DECL = """package profiledb

// VerifGo runs a background clean-up; the harness replaces it by a queue.
var VerifGo = func(name string, key any, f func()) { go f() }
"""


def overlay(c):
    ov = c.rewrite_clock(["internal/profiledb/profiledb.go"])
    def repl(m):
        # arguments of a go statement are evaluated at the statement: keep that.  The key is handed to the harness as
        # the list of all arguments (it picks the key by type, so the order / number of parameters may change).
        name = m.group(1)
        args = [a.strip() for a in m.group(2).split(",") if a.strip()]
        tmps = ["verifArg%d" % n for n in range(len(args))]
        return '{ %s := %s; VerifGo("%s", []any{%s}, func() { db.%s(ctx, %s) }) }' % (
            ", ".join(tmps), ", ".join(args), name, ", ".join(tmps), name, ", ".join(tmps))
    return c.rewrite_sub("internal/profiledb/profiledb.go",
                         [(r"\bgo db\.(remove\w+)\(ctx((?:, [\w.]+)+)\)", repl, 4)],
                         overlay=ov, decl=GO_DECL)


def run(c: Check):
    th = c.thorough
    c.tlc_mc("ProfileDB", "ProfileDB_mc.cfg", coverage=th, name="2 profiles, 2 devices, 1 linked/ded/human, 3 mutations")
    c.tlc_mc("ProfileDB", "ProfileDB_sanity_cleanup.cfg", expect_violation="LookupCorrect",
             name="sanity: unconditional clean-up after a newer sync")
    c.tlc_mc("ProfileDB", "ProfileDB_sanity_human.cfg", expect_violation="LookupCorrect",
             name="sanity: human-id lookup ignores the requested profile")
    c.tlc_mc("ProfileDB", "ProfileDB_sanity_record.cfg", expect_violation="LookupCorrect",
             name="sanity: human-id lookup trusts the requested profile's (possibly old) record")
    if th:
        c.tlc_mc("ProfileDB", "ProfileDB_mc_big.cfg", timeout=2400,
                 name="2 profiles, 3 devices, 2 linked IPs, 5 mutations")
    behs = c.tlc_sim("ProfileDB", "ProfileDB_sim.cfg", num=400 if th else 60, depth=60 if th else 45)
    inp = os.path.join(c.scratch, "c14_behs.json")
    steps = [[{"a": s["a"], "d": s["d"], "p": s["p"], "k": s["k"]} for s in b] for b in behs]
    # a few directed histories on top of the generated ones (judged by the same trace specification): situations
    # that seeded changes needed and that random generation reaches only now and then
    def st(a, d="", p="", k=""):
        return {"a": a, "d": d, "p": p, "k": k}
    for d, p, q in (("d1", "p1", "p2"), ("d2", "p2", "p1")):
        # (the harness obstructs the cache file at every world's 2nd, 6th, ... full sync: the empty one is the 4th)
        steps.append([st("FullSync"), st("FullSync"), st("Attach", d, p), st("FullSync"), st("Detach", d), st("FullSync"), st("Restart"), st("LookupDev", d),
                      st("Attach", d, q), st("PartialSync"), st("Restart")])
        steps.append([st("SetHuman", d, k="h1"), st("Attach", d, p), st("FullSync"), st("MoveQuiet", d, q), st("PartialSync"),
                      st("LookupHuman", p=p, k="h1"), st("LookupHuman", p=q, k="h1"), st("RunCleanup", "human", p, "h1"),
                      st("Move", d, p), st("PartialSync"), st("LookupHuman", p=q, k="h1")])
    json.dump(steps, open(inp, "w"))
    out, _ = c.go_harness("internal/profiledb", "^TestVerifC14Stepper$", rewrites=overlay(c),
                          env={"VERIF_IN": inp, "VERIF_NRANDOM": 3000 if th else 250}, files=["c14_test.go"])
    ev = read_ndjson(out)
    nquiet = sum(1 for e in ev if e["ev"] == "MoveQuiet")
    if nquiet < 5:
        raise Undecided("vacuous: %d moves reported with the new profile only" % nquiet)
    fails = c.validate_segments("TraceProfileDB", "TraceProfileDB.cfg", ev, timeout=1800)
    # soft binding of the implementation-shaped part of the model
    drift = c.validate_segments("TraceProfileDB", "TraceProfileDB_model.cfg",
                                [e for e in ev], max_fail=3, timeout=1800) if not fails else []
    c.cov["traces_validated_against_impl"] -= (len([e for e in ev if e["ev"] == "Reset"]) - len(drift)) if not fails else 0
    if drift:
        c.notes.append("model drift: %d trace(s) where the implementation-shaped model predicts other look-up "
                       "results / queued clean-ups than observed (property held); first: %s" % (
                           len(drift), json.dumps(drift[0][0][drift[0][1]])[:300]))
    seg = []
    for e in ev + [{"ev": "Reset"}]:
        if e["ev"] == "Reset":
            if seg:
                c.count_case(seg, nontrivial=any(a[0] == "RunCleanup" for a in seg) or any(a[0] == "Restart" for a in seg))
            seg = []
        else:
            c.cov["evaluations"] += 1
            seg.append((e["ev"], e["d"], e["p"], e["k"]))
    c.cov["evaluations"] -= len(c.distinct)
    c.cov["rule"] = ("a case is one history of backend mutations, full/partial syncs, restarts, look-ups and explicitly "
                     "scheduled clean-ups on the real profiledb.Default; after every step all four look-ups are probed "
                     "for the whole key universe; non-trivial = contains a scheduled clean-up or a restart; distinct by "
                     "the action sequence; backend leg: a case is one history of backend mutations, scheduled full / "
                     "incremental syncs (empty ones included), look-ups and clean-ups on the real backendpb.ProfileStorage + "
                     "profiledb.Default against an in-process gRPC backend, non-trivial = an incremental sync had to deliver "
                     "a deleted profile; every probe of every look-up after a step is one evaluation")
    c.sample({"history": [(e["ev"], e["d"], e["p"], e["k"]) for e in ev[1:30]]})
    for sg, idx, reason in fails:
        e = sg[idx]
        acts = [(x["ev"], x["d"], x["p"], x["k"]) for x in sg[1:idx + 1]]
        inv = reason.split()[1] if reason.startswith("invariant") else "stuck"
        if inv == "GhostAgrees":
            raise Undecided("harness backend and spec ghost disagree after %s" % acts[-6:])
        kinds = [a[0] for a in acts]
        c.violation({"kind": inv, "after_cleanup": "RunCleanup" in kinds, "human_move": "Move" in kinds and any(k == "SetHuman" for k in kinds),
                     "restart": e["ev"] == "Restart"},
                    "C14 %s after history %s; probes dev=%s linked=%s ded=%s human=%s restore=%s" % (
                        reason, acts[-14:], json.dumps(e["pdev"]), json.dumps(e["plinked"]), json.dumps(e["pded"]),
                        json.dumps(e["phuman"]), e.get("restore")),
                    {"segment": [{k: x[k] for k in ("ev", "d", "p", "k")} for x in sg[:idx + 1]], "last_event": e,
                     "reason": reason})
    _backend(c, th)
    crash_points(c, th)
    c.assumptions += [
        "the scripted Storage of the stepper delivers whole dirty profiles with all their devices; that the real "
        "backendpb.ProfileStorage + profiledb.Default pair does so is checked against an in-process backend that follows "
        "the protocol of dns.proto (full sync = zero sync_time = all live profiles, never deleted ones; incremental sync "
        "= profiles changed since the sync_time of the previous trailer, deleted ones as tombstones with or without "
        "their devices; trailer always present) -- that the production backend follows it is assumed",
        "clean-up goroutines are intercepted by an overlay rewrite of `go db.remove*(...)` (VerifGo) and run when the "
        "schedule says; time.Now is virtualised (VerifNow) to choose full or partial syncs",
        "auto-device creation is not modelled (AutoDevicesEnabled = false in generated profiles)",
        "TLC, SANY, CommunityModules Json",
    ]


def _backend(c, th):
    """The real backendpb.ProfileStorage feeding the real profiledb.Default against an in-process DNSService:
    the protocol ProfileDB.tla assumes of the storage (TraceProfileSync.tla)."""
    nhist, nsteps = (400, 80) if th else (12, 40)
    out, _ = c.go_harness("internal/backendpb", "^TestVerifC14Backend$", rewrites=overlay(c),
                          env={"VERIF_NHIST": nhist, "VERIF_NSTEPS": nsteps}, files=["c14pb_test.go"], timeout=900)
    ev = read_ndjson(out)
    path = os.path.join(c.scratch, "c14pb.ndjson")
    write_ndjson(path, ev)
    r = c.tlc_trace("TraceProfileSync", "TraceProfileSync.cfg", path, timeout=600)
    if r.tuples("STUCK"):
        raise Undecided("backend-sync trace spec stuck:\n%s" % r.out[-2000:])
    nonconf = r.tuples("NONCONF")
    if not r.ok and not nonconf:
        raise Undecided("backend-sync trace rejected without a non-conformant line:\n%s" % r.out[-2000:])
    # a line with probes_bad or a broken chain that TLC did not report would be a fault of the spec binding
    flagged = {int(t[0]) - 1 for t in nonconf}
    for i, e in enumerate(ev):
        if e["probes_bad"] and i not in flagged:
            raise Undecided("backend-sync: line %d has disagreeing probes but was accepted by the trace spec" % (i + 1))
    hists, cur = [], []
    for e in ev:
        if e["ev"] == "Reset" and cur:
            hists.append(cur)
            cur = []
        cur.append(e)
    if cur:
        hists.append(cur)
    badh = {ev[i]["hist"] for i in flagged}
    c.cov["traces_validated_against_impl"] += len(hists) - len(badh)
    syncs = [e for e in ev if e["ev"] == "Sync"]
    for h in hists:
        ops = [(e["ev"], e["op"]) for e in h if e["ev"] != "Reset"]
        c.count_case(("backend", ops), nontrivial=any(e["ev"] == "Sync" and not e["full_expected"] and e["exp_deleted"] > 0
                                                        for e in h))
        c.cov["evaluations"] += sum(e["nprobes"] for e in h) - 1
    reported = {}
    for t in nonconf:
        i = int(t[0]) - 1
        e = ev[i]
        h = [x for x in ev[:i + 1] if x["hist"] == e["hist"]]
        ops = ["%s %s" % (x["ev"], x["op"]) for x in h if x["ev"] != "Reset"]
        for clause in ("SyncTimeChain", "LookupsMatchReference"):
            if clause not in t[1]:
                continue
            # the first offending line of a history per clause, a few histories per clause
            seen = reported.setdefault(clause, set())
            if e["hist"] in seen or len(seen) >= 3:
                continue
            seen.add(e["hist"])
            if clause == "SyncTimeChain":
                what = ("sync #%d of the history: the schedule calls for %s sync, the backend received %d request(s), "
                        "the last one %s (sync_time %s ms, trailer of the previous response %s)" % (
                            len([x for x in h if x["ev"] == "Sync"]), "a full" if e["full_expected"] else "an incremental",
                            e["nreq"], "FULL (zero sync_time)" if e["req_full"] else "incremental", e["req_rel_ms"],
                            "matched" if e["req_time_is_prev_trailer"] else "NOT matched"))
            else:
                what = "%d look-up(s) disagree with the latest synchronised backend records after %s %s: %s" % (
                    len(e["probes_bad"]), e["ev"], e["op"], "; ".join(e["probes_bad"][:3]))
            c.violation({"kind": "backend-sync", "clause": clause},
                        "C14 backendpb.ProfileStorage + profiledb.Default, %s: %s; history (deleted profiles sent %s their "
                        "devices, clean-ups %s): ... %s" % (clause, what, "with" if e["tomb_devices"] else "without",
                                                              e["cleanups"], ops[-12:]),
                        {"history": h, "line": e, "reasons": t[1]})
    if not nonconf:
        # vacuity: judged on what the SCHEDULE called for, not on what the code under test asked the backend
        inc = [e for e in syncs if not e["full_expected"]]
        want = 5 * nhist
        problems = []
        if len(syncs) < want:
            problems.append("only %d syncs (want >= %d)" % (len(syncs), want))
        if not any(e["exp_streamed"] == 0 for e in inc):
            problems.append("no incremental sync with nothing to deliver")
        if not any(e["exp_deleted"] > 0 for e in inc):
            problems.append("no profile deletion was delivered by an incremental sync")
        if not any(e["prev_sync_empty"] and e["exp_deleted"] > 0 for e in inc):
            problems.append("no profile deletion right after an empty incremental sync")
        if sum(1 for h in hists for e in [x for x in h if x["ev"] == "Sync"][1:] if e["full_expected"]) < 1:
            problems.append("no full sync after the first one of a history")
        if not any(e["ndeleted_found"] > 0 for e in ev) or not any(e["nfound"] > 0 for e in ev):
            problems.append("the look-ups never found a device (of a deleted profile)")
        if len({e["tomb_devices"] for e in ev}) < 2 and th:
            problems.append("only one way of sending deleted profiles was exercised")
        if problems:
            raise Undecided("backend-sync harness vacuous: " + "; ".join(problems))
    c.sample({"backend_sync": [{k: e[k] for k in ("op", "full_expected", "req_full", "req_time_is_prev_trailer", "nstreamed",
                                                    "ndeleted_streamed", "nprobes", "nfound")} for e in syncs[:8]],
              "histories": len(hists), "syncs": len(syncs),
              "empty_incremental": sum(1 for e in syncs if not e["full_expected"] and e["exp_streamed"] == 0)})


def crash_points(c, th):
    """Kill points of the cache-file replacement (renameio.WriteFile) + restart."""
    import killpoints
    c.tlc_mc("AtomicFile", "AtomicFile_mc.cfg", name="atomic replace, kill anywhere")
    c.tlc_mc("AtomicFile", "AtomicFile_sanity.cfg", expect_violation="DiskAlwaysComplete",
             name="sanity: in-place rewrite is not atomic")
    binp = c.go_test_binary("internal/profiledb", files=["c14_test.go", "c14crash_test.go"], rewrites=overlay(c))
    d = os.path.join(c.scratch, "crashdir")
    os.makedirs(d, exist_ok=True)
    target = os.path.join(d, "profiles.pb")
    env = c.goenv({"VERIF_CRASH_FILE": target})

    def verify():
        out = os.path.join(c.scratch, "verify.ndjson")
        e = dict(env)
        e["VERIF_OUT"] = out
        import subprocess
        p = subprocess.run([binp, "-test.run", "^TestVerifC14CrashVerify$", "-test.count=1"], env=e, cwd=d,
                           stdout=subprocess.PIPE, stderr=subprocess.STDOUT, text=True, timeout=120)
        if p.returncode != 0:
            return "corrupt"
        st = read_ndjson(out)[0]["state"]
        return {"ver1": "old", "ver2": "new"}.get(st, st)

    allev = []
    total = 0
    for absent in ([False, True] if th else [False]):
        ev, kills = killpoints.enumerate_kills(
            c, binp, "^TestVerifC14CrashChild$", verify, target, env,
            ({"VERIF_CRASH_VERSION": "1"}, {"VERIF_CRASH_VERSION": "2"}), absent=absent,
            max_n=2000 if th else 60)
        allev += ev
        total += kills
    if total < 5:
        raise Undecided("only %d kill points reached" % total)
    fails = c.validate_segments("TraceAtomicFile", "TraceAtomicFile.cfg", allev, is_reset=lambda e: e["ev"] == "Begin")
    for e in allev:
        if e["ev"] == "Kill":
            c.count_case(("kill", e["n"], e["absent"], e["last"][:60]), nontrivial=True)
    c.sample({"crash_points": total, "syscalls_of_one_replace": [e["raw"][:90] for e in allev if e["ev"] == "Sys"][:12],
              "kills": [{k: e[k] for k in ("n", "state", "last")} for e in allev if e["ev"] == "Kill"][-4:]})
    for sg, idx, reason in fails:
        e = sg[idx]
        c.violation({"kind": "cache-file", "ev": e["ev"], "state": e.get("state", "")},
                    "C14 cache file not atomic: %s at %s" % (reason, json.dumps(e)[:400]),
                    {"segment": sg, "offending_index": idx})


if __name__ == "__main__":
    main("C14", run)
