"""EXT8  Every configured value arrives where the documentation says it is used (configuration data flow)."""
import json
import os
import re
from vlib import Check, read_ndjson, write_ndjson, main, Undecided, REPO

# (file relative to the repository, constructor, name of its configuration parameter, by value?)
HOOKS = [
    ("internal/geoip/file.go", "NewFile", "c", False),
    ("internal/filter/hashprefix/filter.go", "NewFilter", "c", False),
    ("internal/filter/filterstorage/default.go", "New", "c", False),
    ("internal/bindtodevice/manager_linux.go", "NewManager", "c", False),
    ("internal/dnsmsg/constructor.go", "NewConstructor", "conf", False),
    ("internal/tlsconfig/manager.go", "NewDefaultManager", "conf", False),
    ("internal/billstat/runtime.go", "NewRuntimeRecorder", "c", False),
    ("internal/backendpb/billstat.go", "NewBillStat", "c", False),
    ("internal/backendpb/profiledb.go", "NewProfileStorage", "c", False),
    ("internal/backendpb/ratelimiter.go", "NewRateLimiter", "c", False),
    ("internal/backendpb/remotekv.go", "NewRemoteKV", "c", False),
    ("internal/profiledb/profiledb.go", "New", "c", False),
    ("internal/dnscheck/remotekv.go", "NewRemoteKV", "c", False),
    ("internal/rulestat/http.go", "NewHTTP", "c", False),
    ("internal/consul/allowlist.go", "NewAllowlistUpdater", "c", False),
    ("internal/connlimiter/limiter.go", "New", "c", False),
    ("internal/websvc/websvc.go", "New", "c", False),
    ("internal/agdservice/refresh.go", "NewRefreshWorker", "c", False),
    ("internal/dnsdb/dnsdb.go", "New", "c", False),
    ("internal/dnssvc/dnssvc.go", "New", "c", False),
    ("internal/dnssvc/handler.go", "NewHandlers", "c", False),
    ("internal/querylog/fs.go", "NewFileSystem", "c", False),
    ("internal/remotekv/cachekv.go", "NewCache", "c", False),
    ("internal/remotekv/keynamespace.go", "NewKeyNamespace", "conf", False),
    ("internal/remotekv/consulkv/consulkv.go", "NewKV", "conf", False),
    ("internal/remotekv/rediskv/rediskv.go", "NewRedisKV", "c", False),
    ("internal/dnsserver/ratelimit/backoff.go", "NewBackoff", "c", False),
    ("internal/dnsserver/forward/forward.go", "NewHandler", "c", False),
    ("internal/dnsserver/serverdns.go", "NewServerDNS", "conf", True),
    ("internal/dnsserver/servertls.go", "NewServerTLS", "conf", True),
    ("internal/dnsserver/serverquic.go", "NewServerQUIC", "conf", True),
    ("internal/dnsserver/serverhttps.go", "NewServerHTTPS", "conf", True),
    ("internal/dnsserver/serverdnscrypt.go", "NewServerDNSCrypt", "conf", True),
]

DECL = "package %s\n\n// VerifCapture, when set, receives the configuration every hooked constructor of this package is given.\n" \
       "var VerifCapture func(site string, conf any)\n"


def overlays(c):
    """Build-time copies of the constructors' files in which the configuration is handed to a
    package variable at the entry of the constructor (no repository hooks)."""
    ov = {}
    extra_decl = {
        "access": "\n// VerifArgs receives the arguments of NewGlobal.\nvar VerifArgs func(domains []string, subnets []netip.Prefix)\n",
        "bindtodevice": "\n// VerifArgs receives the arguments of Manager.Add.\n"
                        "var VerifArgs func(id, iface string, port uint16, cc *ControlConfig)\n",
        "agdservice": "\n// VerifNoStart keeps refresh workers from starting their goroutines.\nvar VerifNoStart bool\n",
    }
    for rel, fn, par, byval in HOOKS:
        src = os.path.join(REPO, rel)
        pkg = re.search(r"^package (\w+)", open(src).read(), re.M).group(1)
        site = "%s.%s" % (pkg, fn)
        arg = ("&" + par) if byval else par
        pat = r"^(func %s(?:\[[^\]]*\])?\((?:ctx context\.Context, )?%s [^)]*\) [^\n]*\{)$" % (fn, par)
        rep = r'\1\n\tif VerifCapture != nil {\n\t\tVerifCapture("%s", %s)\n\t}\n' % (site, arg)
        decl = DECL % pkg + extra_decl.get(pkg, "")
        ov = c.rewrite_sub(rel, [(pat, rep, 1)], overlay=ov, decl=decl)
    # constructors without a configuration structure
    ov = c.rewrite_sub("internal/access/access.go", [(
        r"^(func NewGlobal\(blockedDomains \[\]string, blockedSubnets \[\]netip\.Prefix\) [^\n]*\{)$",
        r"\1\n\tif VerifArgs != nil {\n\t\tVerifArgs(blockedDomains, blockedSubnets)\n\t}\n", 1)], overlay=ov,
        decl=(DECL % "access").replace("package access\n", "package access\n\nimport \"net/netip\"\n", 1) + extra_decl["access"])
    ov = c.rewrite_sub("internal/bindtodevice/manager_linux.go", [(
        r"^(func \(m \*Manager\) Add\(id ID, ifaceName string, port uint16, ctrlConf \*ControlConfig\) [^\n]*\{)$",
        r"\1\n\tif VerifArgs != nil {\n\t\tVerifArgs(string(id), ifaceName, port, ctrlConf)\n\t}\n", 1)], overlay=ov,
        decl=DECL % "bindtodevice" + extra_decl["bindtodevice"])
    # refresh workers are constructed but never started: the recorder observes their configuration only
    ov = c.rewrite_sub("internal/agdservice/refresh.go", [(
        r"^(func \(w \*RefreshWorker\) Start\(_ context\.Context\) \(err error\) \{)$",
        r"\1\n\tif VerifNoStart {\n\t\treturn nil\n\t}\n", 1)], overlay=ov, decl=DECL % "agdservice" + extra_decl["agdservice"])
    return ov


IDX_RE = re.compile(r"\[(\d+)\]|\{([^{}]*)\}")


def split_path(p):
    """concrete path -> (pattern, index tuple): [n] and {key} become [*] and {*}"""
    idx = []

    def rep(m):
        if m.group(1) is not None:
            idx.append(m.group(1))
            return "[*]"
        idx.append(m.group(2))
        return "{*}"
    return IDX_RE.sub(rep, p), idx


def key_of(p):
    pat, idx = split_path(p)
    return pat + "@" + ",".join(idx), pat, idx


def prefixes(pat):
    """the proper prefixes of a target pattern that end before a dot outside <...>"""
    res, depth = [], 0
    for i, ch in enumerate(pat):
        if ch == "<":
            depth += 1
        elif ch == ">":
            depth -= 1
        elif ch == "." and depth == 0:
            res.append(pat[:i])
    return res[1:]          # without the bare package name


def normalise(ev):
    """The recorder's lines in the form TraceConfigFlow reads."""
    base = ev[0]
    tinst = {}
    targets = {}
    for p, v in base["targets"].items():
        k, pat, idx = key_of(p)
        targets[k] = v
        tinst.setdefault(pat, []).append(idx)
    leaves, lv = {}, []
    for p, v in sorted(base["leaves"].items()):
        k, pat, idx = key_of(p)
        leaves[k] = v
        lv.append({"k": k, "p": pat, "i": idx, "v": v})
    out = [{"kind": "base", "leaves": leaves, "lv": lv, "targets": targets, "tinst": tinst}]
    for e in ev[1:]:
        st = []
        for p, v in sorted(e["set"].items()):
            k, pat, idx = key_of(p)
            st.append({"k": k, "p": pat, "i": idx, "v": v})
        chg = []
        for p, c in sorted(e["changed"].items()):
            k, pat, idx = key_of(p)
            chg.append({"k": k, "p": pat, "i": idx, "old": c["old"], "new": c["new"], "pre": prefixes(pat)})
        out.append({"kind": "var", "id": e["id"], "leafp": split_path(e["leaf"])[0], "cls": e["cls"], "op": e["op"],
                    "accepted": e["accepted"], "set": st, "chg": chg,
                    "unobs": [key_of(p)[0] for p in e["unobserved"]]})
    return out


NUMERIC = {"bool", "int", "port", "dur", "size", "len4", "len6"}
TRIPLE = re.compile(r'<<\s*"([^"]*)"\s*,\s*"([^"]*)"\s*,\s*"([^"]*)"\s*>>')


def describe(e):
    s = ", ".join("%s=%s" % kv for kv in sorted(e["set"].items()))
    return "%s [%s%s]: %s" % (e["leaf"], e["cls"], (" with " + e["ctx"]) if e.get("ctx") else "", s[:300])


def model_runs(c, th):
    c.tlc_mc("ConfigFlow", "ConfigFlow_wf.cfg", count=False,
             name="well-formedness of the relation: every switch has its source entry, no target carries two leaves")
    r = c.tlc_mc("ConfigFlow", "ConfigFlow_mc.cfg", timeout=1500, workers=6, coverage=th,
                 name="abstract run: every model leaf in every value class, 2 changes, both upstream lists")
    if th:
        c.tlc_mc("ConfigFlow", "ConfigFlow_mc_big.cfg", timeout=1500, workers=8,
                 name="abstract run: 3 changes among the switches, the leaves they gate and the leaves with two consumers")
    c.cov["exhaustive"] = True
    if th:
        z = [x for x in r.zero_coverage() if x[0] in ("SetLeaf", "SetLists", "Next")]
        if z:
            raise Undecided("actions of ConfigFlow never taken in the exhaustive run: %s" % z)
    for cfg, inv, what in [
            ("crosswire", "Reaches", "a target fed from the sibling leaf (IPv6 from IPv4, TCP switch from QUIC)"),
            ("crosstalk", "NoCrossTalk", "the same defect seen from the sibling: changing it moves a foreign target"),
            ("drop", "Reaches", "one of two consumers of a leaf no longer receives it"),
            ("wronggate", "GatedByOwnFlag", "a gated value passed on although its switch is off"),
            ("splitoff", "PartitionExact", "concatenated upstream lists split at the wrong index"),
            ("reorder", "OrderPreserved", "fallback list in another order"),
            ("zerodefault", "ZeroIsMeaningful", "a sub-minimum value replaced by a default")]:
        c.tlc_mc("ConfigFlow", "ConfigFlow_sanity_%s.cfg" % cfg, expect_violation=inv, count=False, workers=2,
                 name="sanity: %s" % what)


def run(c: Check):
    th = c.thorough
    # ---- the relation and its abstract run (concurrently with the recorder)
    import threading
    box = {}

    def bg():
        try:
            model_runs(c, th)
        except BaseException as e:  # noqa
            box["err"] = e
    t = threading.Thread(target=bg)
    t.start()
    try:
        run_real(c, th)
    finally:
        t.join()
    if "err" in box:
        raise box["err"]


def run_real(c, th):
    # ---- the real glue
    ov = overlays(c)
    env = {}
    for k in ("VERIF_EXT8_ONLY", "VERIF_EXT8_CLASSES"):
        if os.environ.get(k):
            env[k] = os.environ[k]
    focus = bool(env)
    out, stdout = c.go_harness("internal/cmd", "^TestVerifEXT8$", env=env, files=["c20_test.go", "ext8_test.go"],
                               rewrites=ov, timeout=1500)
    ev = read_ndjson(out)
    if os.environ.get("VERIF_EXT8_DUMP"):
        import shutil
        shutil.copy(out, os.environ["VERIF_EXT8_DUMP"])
    if not ev or ev[0].get("kind") != "base":
        raise Undecided("no base line recorded")
    base = ev[0]
    bad_steps = [s for s in base["steps"] if s["err"]]
    if bad_steps:
        raise Undecided("builder steps fail on the distributed example in the laboratory: %s" % bad_steps)
    if len(base["targets"]) < 500:
        raise Undecided("only %d target paths flattened on the base run" % len(base["targets"]))
    tr = normalise(ev)
    replay = getattr(c, "replay_path", None)
    if replay:   # corrupt-a-field demonstrations and re-judging a stored trace
        tr = [json.loads(x) for x in open(replay)]
    path = os.path.join(c.scratch, "ext8.ndjson")
    write_ndjson(path, tr)
    if os.environ.get("VERIF_EXT8_DUMP"):
        import shutil
        shutil.copy(path, os.environ["VERIF_EXT8_DUMP"] + ".trace")
    r = c.tlc_trace("TraceConfigFlow", "TraceConfigFlow.cfg", path, timeout=1500, heap="6g")
    if os.environ.get("VERIF_EXT8_DUMP"):
        open(os.environ["VERIF_EXT8_DUMP"] + ".tlc", "w").write(r.out)
    if r.tuples("STUCK"):
        raise Undecided("trace spec stuck: %s" % r.tuples("STUCK"))
    if not r.ok and not r.tuples("NONCONF"):
        raise Undecided("trace validation failed:\n%s" % r.out[-3000:])
    must = set(re.findall(r'"([^"]+)"', (r.tuples("MUSTLEAVES") or [[""]])[0][0]))
    undoc = set(re.findall(r'"([^"]+)"', (r.tuples("UNDOCUMENTED") or [[""]])[0][0]))
    flowleaves = set(re.findall(r'"([^"]+)"', (r.tuples("FLOWLEAVES") or [[""]])[0][0]))
    xfby = {}
    for lf, xf in re.findall(r'<<\s*"([^"]*)"\s*,\s*"([^"]*)"\s*>>', (r.tuples("XFBYLEAF") or [[""]])[0][0]):
        xfby.setdefault(xf, set()).add(lf)
    if len(must) < 100:
        raise Undecided("the trace spec reported only %d documented leaves" % len(must))

    # ---- coverage and vacuity
    n_acc = 0
    by_cls = {}
    accepted_leaves = {}      # leaf instance -> classes accepted and fully observed
    for e in ev[1:]:
        c.count_case([e["leaf"], e["cls"], e.get("ctx", ""), sorted(e["set"].items())], nontrivial=e["accepted"])
        if not e["accepted"]:
            continue
        n_acc += 1
        by_cls[e["cls"] if e["src"] != "combo" else "combo"] = by_cls.get(e["cls"] if e["src"] != "combo" else "combo", 0) + 1
        if e["op"] == "set" and not e["failed"]:
            accepted_leaves.setdefault(e["leaf"], set()).add(e["cls"])
    num = [p for p, k in base["kinds"].items() if k in NUMERIC]
    judged = [p for p in num if split_path(p)[0] in must and p in accepted_leaves]
    observed_only = [p for p in num if split_path(p)[0] not in must]
    never = sorted(p for p in num if split_path(p)[0] in must and p not in accepted_leaves)
    unmodelled = sorted({split_path(p)[0] for p in base["leaves"] if split_path(p)[0] not in flowleaves | undoc})
    c.notes.append("lines=%d accepted=%d; numeric/boolean leaves of the example: %d, of which %d judged, %d observed only "
                   "(no documented consumer), %d never accepted or never complete: %s" % (
                       len(ev) - 1, n_acc, len(num), len(judged), len(observed_only), len(never), never[:12]))
    c.notes.append("accepted lines per class: %s" % dict(sorted(by_cls.items())))
    if unmodelled:
        c.notes.append("leaf patterns of the example the relation does not mention: %s" % unmodelled)
    c.notes.append("not carried through the flow (nothing recorded for them): connectivity_check.* (the probe dials out), "
                   "certificate / key file pairs (consumed inside tlsconfig.DefaultManager, see EXT6), VERBOSE, LOG_TIMESTAMP, "
                   "SENTRY_DSN, CONFIG_PATH, METRICS_NAMESPACE (process-level); startBindToDevice, mustStartDNS, "
                   "mustInitDebugSvc and websvc.Start are not run (they bind sockets); refresh workers are built, not started")
    touched = set()
    for e in ev[1:]:
        if e["accepted"]:
            touched.update(split_path(p)[0] for p in e["set"])
    xf_seen = {xf: len(lfs & touched) for xf, lfs in xfby.items()}
    c.notes.append("transformation classes: documented leaves exercised per class %s" % dict(sorted(xf_seen.items())))
    if not focus and not replay:
        for xf, n in xf_seen.items():
            if n == 0:
                raise Undecided("vacuous: no accepted line touches a leaf of transformation class %s" % xf)
        if len(judged) < 0.8 * len(num):
            raise Undecided("vacuous: only %d of the %d numeric/boolean leaves of the example were exercised and judged" % (
                len(judged), len(num)))
        for cls in ("flip", "distinct", "small", "zero", "drop", "add", "swap", "combo"):
            if by_cls.get(cls, 0) < 3:
                raise Undecided("vacuous: only %d accepted lines of class %s" % (by_cls.get(cls, 0), cls))
        if len(unmodelled) > 10:
            raise Undecided("the relation does not mention %d leaf patterns of the example: %s" % (len(unmodelled), unmodelled))
    c.cov["rule"] = ("one run of the real glue per line: the example with one leaf (or one list, or a switch and the leaf it "
                     "gates) changed; non-trivial = accepted by validation; distinct by (leaf instance, class, context, values)")

    # ---- verdicts
    per = {}
    nbad = 0
    for t in r.tuples("NONCONF"):
        li = int(t[0])
        e = ev[li - 1]
        if li == 1:   # the base run itself
            e = {"id": 0, "leaf": "(the distributed example itself)", "cls": "base", "op": "set", "ctx": "", "failed": [],
                 "set": {}, "changed": {}, "base": True}
        nbad += 1
        for clause, leaf, tgt in TRIPLE.findall(t[1]):
            per.setdefault((clause, leaf, tgt), []).append(e)
    c.cov["traces_validated_against_impl"] += len(ev) - 1 - nbad
    obs = r.tuples("OBSERVED")
    if obs:
        seen = {}
        for t in obs:
            e = ev[int(t[0]) - 1]
            seen.setdefault(split_path(e["leaf"])[0], set()).update(re.findall(r'"([^"]+)"', t[1]))
        c.notes.append("undocumented leaves and what they moved (not judged): %s" % {
            k: sorted(v)[:4] for k, v in sorted(seen.items())})
    c.sample({"base_targets": len(base["targets"]), "example_line": {k: ev[1][k] for k in ("leaf", "cls", "set", "changed")}})
    pending = []
    if os.environ.get("VERIF_EXT8_PENDING"):
        # candidate findings not yet registered in known_findings.json (see pending_fixes/EXT8-known-findings.json)
        from vlib import VERIF, log
        pending = json.load(open(os.path.join(VERIF, "pending_fixes", "EXT8-known-findings.json")))["findings"]
    shown = set()
    for (clause, leaf, tgt), es in sorted(per.items()):
        sig = {"kind": "config-flow", "leaf": leaf, "clause": clause, "target": tgt}
        pk = next((k for k in pending if all(sig.get(a) == b for a, b in k["match"].items())), None)
        if pk is not None:
            if pk["id"] not in shown:
                log("PENDING-FINDING: property=EXT8 %s (%s)" % (pk["what"][:200], pk["id"]))
                shown.add(pk["id"])
            c.notes.append("pending finding %s seen: %s / %s" % (pk["id"], clause, tgt))
            continue
        e = es[0]
        if e.get("base"):
            e = dict(e)
            e["set"] = {p: v for p, v in base["leaves"].items() if split_path(p)[0] == leaf}
            e["changed"] = {p: {"old": v, "new": v} for p, v in base["targets"].items() if split_path(p)[0] == tgt}
        ch = e["changed"]
        want = [p for p in ch if split_path(p)[0] == tgt]
        got = "; ".join("%s: %s -> %s" % (p, ch[p]["old"], ch[p]["new"]) for p in want[:3]) or "target did not change"
        if e.get("base"):
            got = "; ".join("%s = %s" % (p, ch[p]["new"]) for p in want[:3]) or "no such target"
        if clause == "NoCrossTalk":
            desc = "changing %s also changed %s, which the documentation does not connect to it (%s)" % (describe(e), tgt, got)
        else:
            desc = "%s: %s must arrive at %s per the documentation, observed: %s" % (clause, describe(e), tgt, got)
        if e["failed"]:
            desc += " [steps failed in this variant: %s]" % "; ".join(e["failed"])[:200]
        c.violation({"kind": "config-flow", "leaf": leaf, "clause": clause, "target": tgt},
                    "EXT8 " + desc + " (%d lines)" % len(es),
                    [{k: x[k] for k in ("id", "leaf", "cls", "op", "ctx", "set", "changed", "failed")} for x in es[:3]])
    c.assumptions += [
        "the laboratory (loopback HTTP and gRPC servers, temporary files, interface lo, GeoIP test databases) stands for the "
        "deployment the example configuration assumes; upstream addresses are closed loopback ports",
        "a component uses the configuration structure it is given (what happens inside the constructors is the subject of "
        "the other checks); the structure is observed at the constructor's entry through a build-time overlay",
        "the relation was written from doc/configuration.md, doc/environment.md, config.dist.yaml and field comments; `may` "
        "entries (carriers, consumers the documents are silent about) only widen what a leaf is allowed to move",
        "TLC, SANY, CommunityModules Json"]


if __name__ == "__main__":
    main("EXT8", run, level="model_checking")
