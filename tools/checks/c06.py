"""C06  A message is interpreted from its own bytes only, whatever was processed before."""
import json
import os
from vlib import Check, read_ndjson, write_ndjson, main, Undecided


def run(c: Check):
    th = c.thorough
    c.tlc_mc("BufferReuse", "BufferReuse_mc.cfg", name="2 pooled buffers of 4 cells, 3 messages, all declared/carried lengths")
    c.cov["exhaustive"] = True
    c.tlc_mc("BufferReuse", "BufferReuse_sanity.cfg", expect_violation="HistoryIndependence",
             name="sanity: decoding up to the buffer capacity")
    env = {"VERIF_ROUNDS": 8 if th else 2, "VERIF_FLOOD": 64 if th else 24}
    out, _ = c.go_harness("internal/dnsserver", "^TestVerifC06Server$", files=["c06_test.go", "vlab_test.go"], env=env,
                          timeout=1800)
    ev = read_ndjson(out)
    out3, _ = c.go_harness("internal/dnsserver", "^TestVerifC06Burst$", files=["c06_test.go", "vlab_test.go"],
                           env={"VERIF_ROUNDS": 6 if th else 2, "VERIF_BURST": 48 if th else 24}, timeout=1800)
    ev3 = read_ndjson(out3)
    out2, _ = c.go_harness("internal/dnsserver/forward", "^TestVerifC06Upstream$", files=["c06_test.go"], env=env,
                           timeout=1800)
    ev2 = read_ndjson(out2)
    allev = [dict(e, warm=json.dumps(e["warm"]), fresh=json.dumps(e["fresh"])) for e in ev + ev2] + [
        dict(e, warm="replies=%d foreign=%d" % (e["replies"], e["foreign"]), fresh="unsent=%d" % e["unsent"]) for e in ev3]
    if sum(e["replies"] for e in ev3) < 200:
        raise Undecided("burst scenario vacuous: %d replies" % sum(e["replies"] for e in ev3))
    path = os.path.join(c.scratch, "c06.ndjson")
    write_ndjson(path, [{"same": e["same"], "leak": e["leak"], "burst": e["ev"] == "Burst"} for e in allev])
    r = c.tlc_trace("TraceBufferReuse", "TraceBufferReuse.cfg", path)
    if r.tuples("STUCK"):
        raise Undecided("trace spec stuck")
    bad = r.tuples("NONCONF")
    c.cov["traces_validated_against_impl"] += len(allev) - len(bad)
    paths = set(e["path"] for e in allev)
    if not {"udp", "tcp", "dot", "doq", "doh-post", "doh-get", "upstream-udp", "upstream-tcp"} <= paths:
        raise Undecided("receive paths exercised: %s" % sorted(paths))
    # controls must be answered on every path (otherwise the laboratory is broken)
    for e in ev:
        # (a stream whose length prefix lies is refused as a whole: no control can be answered there)
        if e["variant"].startswith("control") and not e["fresh"]["replies"] and e["path"] != "doq-longprefix":
            raise Undecided("control message got no reply on %s" % e["path"])
    for e in ev2:
        if e["variant"].startswith("control") and e["fresh"]["err"]:
            raise Undecided("control reply rejected on %s" % e["path"])
    for e in allev:
        c.count_case((e["path"], e["variant"], e["round"]), nontrivial=not e["variant"].startswith("control"))
    c.cov["rule"] = ("a case is one (receive path, `next` message, round): the same bytes delivered to a warm instance "
                     "(pooled buffers filled by concurrent sentinel traffic) and to a fresh one; non-trivial = `next` is "
                     "truncated or declares more records than it carries")
    c.sample([{k: e[k] for k in ("path", "variant", "nexthex", "same", "leak")} for e in allev[:4]])
    for t in bad:
        e = allev[int(t[0]) - 1]
        c.violation({"kind": "history-dependence", "path": e["path"], "variant": e["variant"]},
                    "C06 %s / %s (bytes %s): %s; warm=%s fresh=%s" % (e["path"], e["variant"], e["nexthex"][:120], t[1],
                                                                   e["warm"][:500], e["fresh"][:300]), e)
    c.assumptions += ["sync.Pool is per-P and non-deterministic: the warm instance is flooded with concurrent sentinel "
                      "traffic (GOMAXPROCS 2) so that every pooled buffer is dirty, and every pair is repeated",
                      "DNSCrypt payloads are encrypted by the client library and cannot be truncated on the wire; its "
                      "receive path shares serveDNS with plain DNS", "TLC, SANY, CommunityModules Json"]


if __name__ == "__main__":
    main("C06", run)
