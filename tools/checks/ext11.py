"""EXT11  (extension, not a listed property) two small stateful components no other check covers:
(a) internal/agdcache -- LRU, Empty, DefaultManager (specs/AgdCache.tla, TraceAgdCache.tla);
(b) internal/dnsserver/prometheus -- the metrics listeners as an accounting ledger (specs/MetricsLedger.tla,
    TraceMetricsLedger.tla)."""
import base64
import collections
import hashlib
import json
import os
import re
import shutil
import subprocess
from concurrent.futures import ThreadPoolExecutor

from vlib import Check, REPO, read_ndjson, main, Undecided

CACHE_SANITY = [
    ("mru", "EvictsLRU"), ("get_norefresh", "EvictsLRU"), ("set_norefresh", "EvictsLRU"),
    ("noreplace", "KeptIsLatest"), ("noreplace_set", "SetContract"), ("noreplace_get", "GetContract"),
    ("cap_plus1", "LenBound"), ("clear_all", "ClearExactly"), ("clear_all_loss", "LossOnlyByEvictOrClear"),
    ("add_keepfirst", "AddReplaces"), ("clearbyid_stale", "ClearByIDExactly"), ("empty_stores", "EmptyIsEmpty"),
    ("len_cap", "LenContract"), ("get_pops", "ReadsDontWrite"), ("evict_spills", "SetIsLocal"),
]
LEDGER_SANITY = [
    ("double", "ExactlyOnce"), ("drop_rare", "ExactlyOnce"), ("invalid_as_request", "NotARequest"),
    ("invalid_as_request_own", "OnlyOwnMetrics"), ("rcode_skipped_on_drop", "RequestsHaveRcode"),
    ("error_as_panic", "ExactlyOnce"), ("ratelimit_swapped", "ExactlyOnce"), ("cache_miss_as_hit", "ExactlyOnce"),
    ("cache_hit_uncounted", "CacheLookups"), ("wrong_server", "ExactlyOnce"), ("fwd_err_always", "ExactlyOnce"),
    ("size_twice", "ObservedOnce"), ("nofold", "LabelsBounded"), ("status_inverted", "GaugesShowLast"),
]


class Lanes:
    """Every lane (one harness run + its trace validation) is run even if an earlier one could not be
    decided: a verdict about the real code outranks a failure of the machinery."""

    def __init__(self, c):
        self.c, self.fails, self.undecided = c, [], []

    def run(self, name, fn):
        try:
            self.fails += [(name,) + f for f in fn()]
        except Undecided as e:
            self.undecided.append((name, e))
        except Exception as e:  # a fault of this script is never a verdict
            import traceback
            self.undecided.append((name, Undecided("internal error in lane: %r\n%s" % (e, traceback.format_exc()[-1500:]))))


PART = os.environ.get("VERIF_EXT11_PART", "")   # "a" / "b": only that component (debugging aid)


def design_runs(th):
    return [r for r in _design_runs(th) if not PART or (PART == "a") == (r[0][0] == "AgdCache")]


def _design_runs(th):
    w = 2   # two TLC runs at a time (ThreadPoolExecutor below): four worker threads in all
    runs = [(("AgdCache", "AgdCache_mc.cfg"), dict(workers=w, name="3 keys, 2 values, Count 2/1 + Empty, 2 ids, 4 calls")),
            (("MetricsLedger", "MetricsLedger_mc.cfg"), dict(workers=w, name="ledger: 2 servers, 2 protocols, 2 networks, 2 events"))]
    for v, inv in CACHE_SANITY:
        runs.append((("AgdCache", "AgdCache_sanity_%s.cfg" % v), dict(workers=1, expect_violation=inv, count=False)))
    for v, inv in LEDGER_SANITY:
        runs.append((("MetricsLedger", "MetricsLedger_sanity_%s.cfg" % v),
                     dict(workers=1, expect_violation=inv, count=False)))
    if th:
        runs += [(("AgdCache", "AgdCache_mc_big.cfg"), dict(workers=w, name="3 keys, Count 2/1, 5 calls")),
                 (("AgdCache", "AgdCache_mc_cap3.cfg"), dict(workers=w, name="4 keys, 1 value, Count 3/2, 5 calls")),
                 (("MetricsLedger", "MetricsLedger_mc_big.cfg"), dict(workers=w, name="ledger: 2 servers, 1 protocol, 3 events"))]
    return runs


def run(c: Check):
    th = c.thorough
    lanes = Lanes(c)
    with ThreadPoolExecutor(max_workers=2) as ex:
        futs = [ex.submit(c.tlc_mc, *a, **kw) for a, kw in design_runs(th)]
        try:
            if PART in ("", "a"):
                agdcache(c, th, lanes)
            if PART in ("", "b"):
                ledger(c, th, lanes)
        except Undecided:
            raise
        except Exception as e:  # a fault of this script is never a verdict
            import traceback
            raise Undecided("internal error: %r\n%s" % (e, traceback.format_exc()[-2000:]))
        finally:
            done = [f.exception() for f in futs]
        for e in done:
            if e is not None:
                raise e
    if th:
        c.cov["exhaustive"] = True
    c.cov["rule"] = ("a case is one call sequence executed on the real agdcache objects (Set/SetWithExpire/Get/Len/Clear/"
                     "Add/ClearByID, ended by a drain), one linearised history of overlapping calls on one LRU, or one "
                     "event sequence delivered to the real metrics listeners; non-trivial = contains an eviction resp. "
                     "a finished request; distinct by the sequence of calls with their abstract arguments; evaluations "
                     "= events validated by TLC")
    for what, seg, idx, reason in lanes.fails:
        e = seg[idx]
        acts = [_act(x) for x in seg[1:idx + 1]]
        c.violation(signature(what, reason, e),
                    "EXT11 %s trace rejected (%s) at event %d %s; calls so far: %s; observed %s" % (
                        what, reason, idx, e.get("ev"), acts[-12:], json.dumps(e, ensure_ascii=False)[:900]),
                    {"component": what, "segment": seg[:idx + 1], "offending_index": idx, "reason": reason})
    if lanes.undecided:
        if not c.violations:
            raise Undecided("lane %s: %s" % lanes.undecided[0])
        for name, e in lanes.undecided:
            c.notes.append("lane %s could not be decided: %s" % (name, str(e)[:300]))
    c.assumptions += [
        "agdcache: the recency order of an LRU is read from the eviction list of gcache.LRUCache by reflection (no "
        "public call shows it without changing it); the drain at the end of every sequence shows the same order "
        "through Set alone.  SetWithExpire is driven with an expiration of 24 h and must behave as Set; expiry itself "
        "is outside the model.  Keys and values are strings; EmptyManager is not driven",
        "agdcache concurrent leg: porcupine v1.3.0 (from the module cache, added to the build by a go.mod overlay) finds "
        "a linearisation with a Go transcription of the sequential model; every linearisation found is validated by "
        "TLC against AgdCache.tla, so the transcription cannot be more permissive than the specification unnoticed",
        "metrics: the listeners are driven directly (no server); time.Since in server.go / forward.go reads a virtual "
        "clock through a build-time overlay, so that the observed durations are exact; every series of the run's "
        "namespace is read back through prometheus.DefaultGatherer after every event",
        "TLC, SANY, CommunityModules Json; Go race detector for the concurrent legs",
    ]


def signature(what, reason, e):
    return {"kind": "trace-rejected", "component": what, "reason": reason.split()[0], "last": e.get("ev")}


def _act(x):
    return tuple(str(x.get(k, "")) for k in ("ev", "c", "k", "v", "id", "s", "p", "nw", "fam", "qt", "rc", "u", "err")
                 if x.get(k, "") not in ("", "-", None))


def _count(c, events, nontrivial):
    seg = []

    def flush():
        if seg:
            c.count_case([_act(x) for x in seg], nontrivial=any(nontrivial(x) for x in seg))
            c.cov["evaluations"] += len(seg)
    for e in events:
        if e["ev"] == "Reset":
            flush()
            seg = []
        else:
            seg.append(e)
    flush()


# ------------------------------------------------------------------ (a) agdcache
def porcupine_overlay(c):
    """porcupine is in the module cache but not a dependency of the repository: a copy of go.mod that requires it
    is overlaid and its two hashes are appended to the scratch go.work.sum."""
    env = dict(os.environ, GOFLAGS="-mod=mod", GOPROXY="off", GOSUMDB="off", GOTOOLCHAIN="local")
    mc = subprocess.run(["go", "env", "GOMODCACHE"], stdout=subprocess.PIPE, text=True, env=env).stdout.strip()
    d = os.path.join(mc, "cache", "download", "github.com", "anishathalye", "porcupine", "@v")
    try:
        ziphash = open(os.path.join(d, "v1.3.0.ziphash")).read().strip()
        mod = open(os.path.join(d, "v1.3.0.mod"), "rb").read()
    except OSError as e:
        raise Undecided("porcupine v1.3.0 is not in the module cache: %s" % e)
    line = "%s  go.mod\n" % hashlib.sha256(mod).hexdigest()
    modhash = "h1:" + base64.b64encode(hashlib.sha256(line.encode()).digest()).decode()
    c.gowork()
    ws = os.path.join(c.scratch, "go.work.sum")
    if "anishathalye/porcupine" not in open(ws).read():
        with open(ws, "a") as f:
            f.write("github.com/anishathalye/porcupine v1.3.0 %s\n" % ziphash)
            f.write("github.com/anishathalye/porcupine v1.3.0/go.mod %s\n" % modhash)
    gm = os.path.join(c.scratch, "go.mod.porcupine")
    with open(gm, "w") as f:
        f.write(open(os.path.join(REPO, "go.mod")).read() + "\nrequire github.com/anishathalye/porcupine v1.3.0\n")
    return {os.path.join(REPO, "go.mod"): gm}


def agdcache(c, th, lanes):
    got = {}

    def replay(tag, simcfg, tracecfg, cap1, cap2, num, depth, nrandom):
        def fn():
            behs = c.tlc_sim("AgdCache", simcfg, num=num, depth=depth)
            inp = os.path.join(c.scratch, "ext11_cache_%s.json" % tag)
            json.dump(behs, open(inp, "w"))
            out, _ = c.go_harness("internal/agdcache", "^TestVerifEXT11Replay$", files=["ext11_test.go"],
                                  env={"VERIF_IN": inp, "VERIF_NRANDOM": nrandom, "VERIF_CAP1": cap1, "VERIF_CAP2": cap2})
            ev = read_ndjson(out)
            got.setdefault("ev", []).extend(ev)
            got["nsim"] = got.get("nsim", 0) + len(behs)
            return c.validate_segments("TraceAgdCache", tracecfg, ev)
        return fn

    def conc():
        ov = porcupine_overlay(c)
        out, _ = c.go_harness("internal/agdcache", "^TestVerifEXT11Conc$", files=["ext11_test.go", "ext11conc_test.go"],
                              race=True, rewrites=ov, env={"VERIF_NROUNDS": 400 if th else 60, "VERIF_CAP1": 2})
        ev = read_ndjson(out)
        got["conc"] = ev
        bad = [e for e in ev if e["ev"] == "NotLinearizable"]
        for e in bad[:3]:
            c.violation({"kind": "not-linearizable", "component": "agdcache.LRU"},
                        "EXT11 agdcache.LRU: a history of overlapping calls on one LRU (Count %d) has no linearisation "
                        "in the sequential model: %s" % (e.get("cap1", 0), json.dumps(e["hist"])[:900]), e)
        lin = [e for e in ev if e["ev"] not in ("NotLinearizable", "History", "ConcSummary")]
        return c.validate_segments("TraceAgdCache", "TraceAgdCache.cfg", lin)

    def vacuity():
        ev = got.get("ev", [])
        if not ev:
            return []
        seen = collections.Counter()
        prev = None
        for e in ev:
            a = e["ev"]
            seen[a] += 1
            if a == "Set":
                seen["Set-exp" if e["exp"] else "Set-plain"] += 1
                if prev and e["c"] in ("l1", "l2"):
                    gone = set(prev["st"][e["c"]]["keys"]) - set(e["st"][e["c"]]["keys"])
                    if gone:
                        seen["eviction"] += 1
                    if e["k"] in prev["st"][e["c"]]["keys"]:
                        seen["Set-existing"] += 1
            elif a == "Get":
                seen["Get-hit" if e["ok"] else "Get-miss"] += 1
                if e["c"] == "e":
                    seen["Get-empty"] += 1
                if e["ok"] and prev and prev["st"][e["c"]]["order"][:1] != [e["k"]]:
                    seen["Get-refreshes"] += 1
            elif a == "Add" and prev and prev.get("reg", {}).get(e["id"], "none") != "none":
                seen["Add-replaces"] += 1
            elif a == "ClearByID" and prev:
                t = prev.get("reg", {}).get(e["id"], "none")
                seen["ClearByID-unregistered" if t == "none" else "ClearByID-registered"] += 1
                if t in ("l1", "l2") and prev["st"][t]["keys"]:
                    seen["ClearByID-nonempty"] += 1
            elif a == "Drain" and len(e["evicted"]) >= 2:
                seen["Drain-ordered"] += 1
            elif a == "Clear" and prev and e["c"] != "e" and prev["st"][e["c"]]["keys"]:
                seen["Clear-nonempty"] += 1
            if any(e.get("st", {}).get(x, {}).get("noorder") for x in ("l1", "l2")):
                seen["noorder"] += 1
            prev = None if a == "Reset" else e
            if a == "Reset":
                prev = {"st": {x: {"keys": [], "order": []} for x in ("l1", "l2", "e")}, "reg": {}}
        need = ["Set-exp", "Set-plain", "Set-existing", "eviction", "Get-hit", "Get-miss", "Get-empty", "Get-refreshes",
                "Len", "Clear", "Clear-nonempty", "Add", "Add-replaces", "ClearByID-registered",
                "ClearByID-unregistered", "ClearByID-nonempty", "Drain-ordered"]
        missing = [k for k in need if not seen[k]]
        if missing:
            raise Undecided("agdcache replay vacuous: never exercised %s" % missing)
        if seen["noorder"]:
            c.notes.append("agdcache: the recency order could not be read from the cache in %d events (not a "
                           "gcache.LRUCache of the known shape); these events were checked for keys, values and Len, and "
                           "the order only through evictions and the drains" % seen["noorder"])
        got["seen"] = dict(seen)
        cs = [e for e in got.get("conc", []) if e["ev"] == "ConcSummary"]
        if "conc" in got and (not cs or cs[-1]["overlaps"] == 0 or cs[-1]["rounds"] == 0):
            raise Undecided("agdcache concurrent leg vacuous: %s" % cs)
        return []

    if th:
        lanes.run("agdcache", replay("a", "AgdCache_sim.cfg", "TraceAgdCache.cfg", 2, 1, 500, 40, 1500))
        lanes.run("agdcache-cap3", replay("b", "AgdCache_sim_big.cfg", "TraceAgdCache_big.cfg", 3, 2, 300, 50, 1000))
    else:
        lanes.run("agdcache", replay("a", "AgdCache_sim.cfg", "TraceAgdCache.cfg", 2, 1, 40, 30, 60))
        lanes.run("agdcache-cap3", replay("b", "AgdCache_sim_big.cfg", "TraceAgdCache_big.cfg", 3, 2, 15, 30, 30))
    lanes.run("agdcache-concurrent", conc)
    lanes.run("agdcache-vacuity", vacuity)
    ev = got.get("ev", [])
    _count(c, ev, lambda x: x["ev"] == "Drain" and len(x.get("evicted") or []) >= 2)
    _count(c, [e for e in got.get("conc", []) if e["ev"] not in ("NotLinearizable", "History", "ConcSummary")],
           lambda x: x["ev"] == "Get" and x["ok"])
    c.sample({"agdcache": [_act(e) for e in ev[1:16]], "classes": got.get("seen")})
    cs = [e for e in got.get("conc", []) if e["ev"] == "ConcSummary"]
    if cs:
        c.notes.append("agdcache concurrent leg: %(rounds)d histories of %(ops)d calls by %(goroutines)d goroutines on "
                       "one LRU under -race, %(overlaps)d pairs of overlapping calls; every history linearisable"
                       % cs[-1] if not any(e["ev"] == "NotLinearizable" for e in got["conc"]) else
                       "agdcache concurrent leg: a history without linearisation was found")
    c.notes.append("observation (agdcache): Manager's comment carries a TODO to panic on a duplicate id; DefaultManager.Add "
                   "documents and implements replacement, which is what the model requires (AddReplaces)")


# ------------------------------------------------------------------ (b) metrics ledger
def ledger(c, th, lanes):
    got = {}
    pkg = "internal/dnsserver/prometheus"
    ov = c.rewrite_clock([pkg + "/server.go", pkg + "/forward.go"])
    # (server.go uses package time for nothing else)
    ov = c.rewrite_sub(pkg + "/server.go", [(r"\Z", "\nvar _ time.Duration\n", 1)], overlay=ov)

    def stepper():
        behs = c.tlc_sim("MetricsLedger", "MetricsLedger_sim.cfg", num=150 if th else 40, depth=30 if th else 25)
        inp = os.path.join(c.scratch, "ext11_ledger.json")
        json.dump(behs, open(inp, "w"))
        out, _ = c.go_harness(pkg, "^TestVerifEXT11Ledger$", files=["ext11_test.go"], rewrites=ov,
                              env={"VERIF_IN": inp, "VERIF_NRANDOM": 200 if th else 40})
        got["ev"] = ev = read_ndjson(out)
        return c.validate_segments("TraceMetricsLedger", "TraceMetricsLedger.cfg", ev)

    def stress():
        out, _ = c.go_harness(pkg, "^TestVerifEXT11LedgerStress$", files=["ext11_test.go"], rewrites=ov, race=True,
                              env={"VERIF_NSTRESS": 60 if th else 8})
        got["stress"] = ev = read_ndjson(out)
        return c.validate_segments("TraceMetricsLedger", "TraceMetricsLedger.cfg", ev)

    def vacuity():
        ev = got.get("ev", [])
        if not ev:
            return []
        seen = collections.Counter()
        for e in ev:
            a = e["ev"]
            seen[a] += 1
            if a in ("Request", "RateLimited", "Allowlisted"):
                seen["%s-type-%s" % (a, "folded" if e["qt"] in ("TYPE65280", "NOQ") else "listed")] += 1
                seen["qt-" + e["qt"]] += 1
                seen["fam-" + e["fam"]] += 1
                seen["nw-" + e["nw"]] += 1
                seen["proto-" + e["p"]] += 1
                seen["srv-" + e["s"]] += 1
            if a == "Request":
                seen["rc-" + e["rc"]] += 1
                if any(x["m"] == "server_response_rcode_total" and x["k"][-1] == "DROPPED" for x in e["delta"]):
                    seen["DROPPED-series"] += 1
                if any(x["m"] == "server_request_total" and x["k"][4] == "OTHER" for x in e["delta"]):
                    seen["OTHER-series"] += 1
            if a == "Forward":
                seen["err-" + e["err"]] += 1
                seen["fwd-rc-" + ("nil" if e["rc"] == "nil" else "some")] += 1
            if a == "Status":
                seen["status-%s-%d" % (e["u"], e["n"])] += 1
            if e.get("note"):
                c.notes.append("metrics harness: %s" % e["note"])
        need = ["Request", "InvalidMsg", "Error", "Panic", "Quic", "RateLimited", "Allowlisted", "CacheHit", "CacheMiss",
                "CacheAdded", "Forward", "Status", "Summary", "Request-type-folded", "Request-type-listed",
                "RateLimited-type-folded", "Allowlisted-type-folded", "qt-TYPE65280", "qt-NOQ", "qt-ANY", "fam-0", "fam-1",
                "fam-2", "nw-udp", "nw-tcp", "proto-dns", "proto-dot", "proto-doq", "srv-s1", "srv-s2", "rc-nil",
                "rc-3841", "rc-NOERROR", "DROPPED-series", "OTHER-series", "err-none", "err-deadline", "err-nettimeout",
                "err-network", "err-other", "fwd-rc-nil", "fwd-rc-some", "status-u1-0", "status-u1-1", "status-u2-0",
                "status-u2-1"]
        missing = [k for k in need if not seen[k]]
        if missing:
            raise Undecided("metrics ledger vacuous: never exercised %s" % missing)
        got["seen"] = {k: seen[k] for k in need}
        st = got.get("stress")
        if st is not None and (sum(1 for e in st if e["ev"] == "Summary" and e["abs"]) == 0 or
                               sum(1 for e in st if e.get("conc")) < 100):
            raise Undecided("metrics stress leg vacuous")
        return []

    lanes.run("metrics-ledger", stepper)
    lanes.run("metrics-ledger-stress", stress)
    lanes.run("metrics-ledger-vacuity", vacuity)
    ev = got.get("ev", [])
    _count(c, ev, lambda x: x["ev"] == "Request")
    _count(c, got.get("stress") or [], lambda x: x["ev"] == "Request")
    c.sample({"metrics": [_act(e) for e in ev[1:12]],
              "line": next((e for e in ev if e["ev"] == "Request" and e["qt"] == "TYPE65280"), None)})
    c.notes.append("observation (metrics): response codes are NOT folded: a code outside miekg/dns' table becomes its decimal "
                   "number (a series per code, up to 4096 of them per server), while rare query types are folded into OTHER; "
                   "the package comment only says 'a response code string representation'")
    c.notes.append("observation (metrics, cosmetic): the Help strings of server_request_size_bytes and "
                   "server_response_size_bytes say 'Time elapsed on processing a DNS query.' (copied from the duration "
                   "histogram)")
    c.notes.append("observation (metrics, documentation): the package comment lists dns_forward_request_total with 'a single "
                   "label: the upstream address' (the code has 'to' and 'network'), does not list "
                   "ratelimit_allowlisted_total, forward_upstream_status, nor the 'type' label of forward_error_total; it "
                   "carries a TODO to update the docs.  The model follows the code for these label sets")


if __name__ == "__main__":
    main("EXT11", run)
