"""EXT5  (extension, not a listed property) server life cycle: Shutdown waits for the work in flight,
bounded by its context, and nothing is handled after it has returned."""
import collections
import glob
import json
import os
import re
from vlib import Check, read_ndjson, main, Undecided

LANES = ["udp", "tcp", "tcp-pipe", "dot", "dot-pipe", "doh-h2", "doh-h3", "doh-mixed", "doq", "dnscrypt-udp", "dnscrypt-tcp"]


def race_reports(scratch):
    """Reports of the Go race detector (GORACE=log_path=<scratch>/race): for each one the function at the
    top of the two conflicting accesses, classified as repo / dep / harness."""
    res = []
    for fn in sorted(glob.glob(os.path.join(scratch, "race.*"))):
        for block in open(fn, errors="replace").read().split("=================="):
            if "WARNING: DATA RACE" not in block:
                continue
            tops = []
            # the two access stacks come first: "<Read|Write> at ... by goroutine" and "Previous <read|write> at"
            for m in re.finditer(r"^(?:Previous )?(?:[Aa]tomic )?(?:[Rr]ead|[Ww]rite) at .*?\n((?:  .*\n      .*\n)+)", block, re.M):
                frames = re.findall(r"^  (\S.*?)\(\)\n      (\S+?):(\d+)", m.group(1), re.M)
                for func, path, line in frames:
                    if func.startswith(("runtime.", "sync.", "sync/atomic.", "internal/")):
                        continue
                    base = os.path.basename(path)
                    kind = "harness" if base.startswith("zz_verif_") else (
                        "repo" if "/internal/dnsserver/" in path and "/pkg/mod/" not in path else "dep")
                    tops.append((kind, "%s (%s:%s)" % ("/".join(func.split("/")[-2:]), base, line)))
                    break
            if len(tops) >= 2:
                res.append({"tops": tops[:2], "text": block.strip()})
    return res


def segments(ev):
    segs, cur = [], []
    for e in ev:
        if e["ev"] == "Reset" and cur:
            segs.append(cur)
            cur = []
        cur.append(e)
    if cur:
        segs.append(cur)
    return segs


def classify(sg, idx):
    """Name the clause of the property that the unexplained event breaks."""
    e = sg[idx]
    head = sg[0]
    pre = sg[:idx]
    phase = {x["q"]: x.get("phase", "") for x in sg if x["ev"] == "Send"}
    running = sorted({x["q"] for x in pre if x["ev"] == "Enter"} - {x["q"] for x in pre if x["ev"] == "Exit"})
    returned = [x for x in pre if x["ev"] == "ShutdownRet"]
    where = "%s scenario %s k=%s D=%sms" % (head.get("tr"), head.get("scen"), head.get("k"), head.get("d_ms"))
    ev = e["ev"]
    if ev == "ShutdownRet":
        if e["res"] == "nil":
            return "ShutdownWaits", "(a) Shutdown returned nil while the handlers of requests %s were still running (%s)" % (
                running, where)
        if e["res"] == "ctx":
            return "DeadlineBounds", "(b) Shutdown returned a context error although its context was not done (%s)" % where
        return "MisuseErrors", "(d) Shutdown of a started server returned %r (%s)" % (e.get("err"), where)
    if ev == "Overdue":
        return "DeadlineBounds", ("(b) Shutdown had not returned %s ms after the call although its context expired after %s ms; "
                                  "handlers still running: %s (%s)") % (e.get("after_ms"), head.get("d_ms"), running, where)
    if ev == "Stall":
        return "ShutdownReturns", "Shutdown without a deadline had not returned after %s ms; running handlers: %s (%s)" % (
            e.get("after_ms"), running, where)
    if ev == "Enter":
        ph = phase.get(e["q"], "?")
        if ph == "late":
            return "NothingAfterStop", "(c) query %d sent after Shutdown had returned (%s) reached the handler (%s)" % (
                e["q"], returned[-1]["res"] if returned else "?", where)
        if ph == "mid":
            return "NoAcceptAfterBegin", ("(e) query %d sent after the listeners had been closed (witness before it) reached "
                                          "the handler (%s)") % (e["q"], where)
        if returned:
            return "ShutdownWaits", "(a) the handler of query %d (%s) started after Shutdown had returned %s (%s)" % (
                e["q"], ph, returned[-1]["res"], where)
        return "NoAcceptAfterBegin", "(e) query %d (%s) reached the handler although it cannot have been accepted (%s)" % (
            e["q"], ph, where)
    if ev in ("Start", "ShutdownSync"):
        st = e.get("st") or ("started" if any(x["ev"] == "Start" and x["res"] == "ok" for x in pre) else "new")
        return "MisuseErrors", "(d) %s on a server in state %s returned %s %r (%s)" % (
            "Start" if ev == "Start" else "Shutdown", st, e["res"], e.get("err"), where)
    if ev == "Result":
        return "AnswerWithoutHandler", "query %d (%s) was answered although no handler wrote an answer (%s)" % (
            e["q"], e.get("phase"), where)
    if ev == "End":
        return "ShutdownReturns", "the world ended with a Shutdown call that never returned (%s)" % where
    return "Unexplained", "event %s is not explained by the specification (%s)" % (json.dumps(e), where)


def run(c: Check):
    th = c.thorough
    # ---- design level
    c.tlc_mc("Lifecycle", "Lifecycle_mc.cfg", coverage=th, name="3 requests, both context kinds, 2 misuse calls")
    c.cov["exhaustive"] = True
    c.tlc_mc("Lifecycle", "Lifecycle_live.cfg", count=False,
             name="liveness: with a deadline Shutdown returns even if no handler ever does")
    c.tlc_mc("Lifecycle", "Lifecycle_live_all.cfg", count=False,
             name="liveness: Shutdown returns if the handlers do")
    for cfg, inv, what in (
            ("Lifecycle_sanity_nowait.cfg", "ShutdownWaits", "Shutdown does not wait for the handlers"),
            ("Lifecycle_sanity_lateclose.cfg", "NoAcceptAfterBegin", "listeners closed late: a request slips in"),
            ("Lifecycle_sanity_lateclose_act.cfg", "AcceptOnlyWhileStarted", "listeners closed late (action property)"),
            ("Lifecycle_sanity_deadline.cfg", "DeadlineBounds", "Shutdown ignores the deadline"),
            ("Lifecycle_sanity_doublenil.cfg", "MisuseErrors", "second Shutdown returns nil")):
        c.tlc_mc("Lifecycle", cfg, expect_violation=inv, name="sanity: " + what)
    r = c._tlc(["-workers", "4", "-config", "Lifecycle_sanity_deadline_live.cfg", "Lifecycle"], 300)
    if not re.search(r"Temporal propert(y ShutdownReturnsByDeadline was|ies were) violated", r.out):
        raise Undecided("sanity (liveness): ShutdownReturnsByDeadline was expected to fail\n" + r.out[-2000:])
    c.cov["tlc_runs"].append({"name": "sanity: Shutdown ignores the deadline (liveness)", "module": "Lifecycle",
                              "cfg": "Lifecycle_sanity_deadline_live.cfg", "generated": r.generated,
                              "distinct": r.distinct, "wall_s": round(r.wall, 1),
                              "result": "expected-violation:ShutdownReturnsByDeadline"})

    # ---- the real servers
    env = {"VERIF_EXT5_REPS": 8 if th else 1, "VERIF_EXT5_MAXK": 5 if th else 3, "VERIF_EXT5_RACES": 4 if th else 2}
    out, _ = c.go_harness("internal/dnsserver", "^TestVerifEXT5$", files=["ext5_test.go"], env=env, timeout=1500)
    ev = read_ndjson(out)
    races = []
    if th:
        env2 = dict(env, VERIF_EXT5_REPS=3, VERIF_EXT5_MAXK=4, GORACE="log_path=%s" % os.path.join(c.scratch, "race"))
        try:
            out2, _ = c.go_harness("internal/dnsserver", "^TestVerifEXT5$", files=["ext5_test.go"], env=env2,
                                   race=True, timeout=1800)
        except Undecided as e:
            # the race detector fails the test binary; its reports are in the log files and the events
            # recorded so far are still there: anything else is a failure of the machinery
            races = race_reports(c.scratch)
            out2 = os.path.join(c.scratch, "out%d.ndjson" % c._n_go)
            if not races or not os.path.exists(out2) or "race detected during execution" not in str(e):
                raise
        ev += read_ndjson(out2)
    segs = segments(ev)
    fails = c.validate_segments("TraceLifecycle", "TraceLifecycle.cfg", ev, max_fail=16)

    seen = set()
    for sg, idx, reason in fails:
        if reason.startswith("invariant"):
            clause = reason.split()[1]
            desc = "EXT5 %s (%s scenario %s k=%s) at event %d %s" % (reason, sg[0].get("tr"), sg[0].get("scen"),
                                                                     sg[0].get("k"), idx, json.dumps(sg[idx]))
        else:
            clause, desc = classify(sg, idx)
            desc = "EXT5 " + desc + "; event %d %s" % (idx, json.dumps(sg[idx])[:300])
        sig = {"kind": clause, "tr": sg[0].get("tr"), "scen": sg[0].get("scen")}
        key = json.dumps(sig, sort_keys=True)
        if key in seen:
            continue
        seen.add(key)
        c.violation(sig, desc, {"segment": sg, "offending_index": idx, "reason": reason})

    # ---- data races (thorough): WaitGroup.Add against WaitGroup.Wait and the like
    seen_r = set()
    for r in races:
        kinds = {k for k, _ in r["tops"]}
        where = " / ".join("%s" % f for _, f in r["tops"])
        if where in seen_r:
            continue
        seen_r.add(where)
        if "harness" in kinds:
            raise Undecided("data race inside the harness itself: %s\n%s" % (where, r["text"][:3000]))
        if kinds == {"repo"}:
            c.violation({"kind": "DataRace", "where": where},
                        "EXT5 data race between repository frames while a server is shut down under traffic "
                        "(the WaitGroup that Shutdown waits for): %s" % where, {"report": r["text"][:6000]})
        else:
            c.notes.append("data race outside the repository (not judged): %s" % where)

    # ---- accounting, vacuity, observations
    per = collections.defaultdict(lambda: collections.Counter())
    obs = collections.defaultdict(lambda: collections.Counter())
    for sg in segs:
        h = sg[0]
        tr, scen = h["tr"], h["scen"]
        end = [e for e in sg if e["ev"] == "End"]
        if not end:
            continue
        end = end[0]
        per[tr][scen] += 1
        rets = [e for e in sg if e["ev"] == "ShutdownRet"]
        res = rets[0]["res"] if rets else "none"
        per[tr]["ret:" + res] += 1
        parked = [e for e in sg if e["ev"] == "Enter"]
        c.count_case((tr, scen, h["k"], h["r"], h["d_ms"] > 0, res), nontrivial=h["k"] > 0 or scen == "R")
        if h["k"] > 0 and scen in ("A", "B"):
            o = obs[tr]
            o["inflight_%s" % scen] += end["inflight"]
            o["inflight_answered_%s" % scen] += end["inflight_answered"]
            for e in sg:
                if e["ev"] == "Exit" and not e["wrote"]:
                    o["handler_write_failed_%s" % scen] += 1
        for e in sg:
            if e["ev"] == "BeginWitness":
                obs[tr]["witness_" + e["kind"]] += 1
            if e["ev"] == "Restart":
                obs[tr]["restart_%s_%s" % (e["res"], "served" if e["served"] else "not_served")] += 1
            if e["ev"] == "Result" and e["phase"] in ("mid", "late"):
                obs[tr]["%s_%s" % (e["phase"], "answered" if e["answered"] else (e["note"].split(":")[0] or "none"))] += 1
        obs[tr]["port_free" if end.get("port_free") else "port_still_bound"] += 1
        if len(parked) > 0:
            c.cov["evaluations"] += len(sg) - 1
    c.cov["rule"] = ("a case is one world: a real server of one transport, k handlers parked, one Shutdown(ctx) call "
                     "(A released before the deadline, B after it, C/C0 nothing in flight, R unparked queries racing "
                     "with the call), a mid and a late query, the misuse calls; non-trivial = a handler was parked or "
                     "a query raced with Shutdown; distinct by (transport, scenario, k, racers, deadline?, result)")
    aborted = [(sg[0]["tr"], sg[0]["scen"], sg[0]["k"], sg[-1].get("why")) for sg in segs if sg[-1]["ev"] == "Abort"]
    if aborted:
        c.notes.append("aborted worlds: %s" % aborted[:10])
    # a verdict about the code outranks the vacuity accounting; without one every transport has to have gone
    # through A, B, C and C0 and has to have seen both kinds of return
    if not c.violations:
        if aborted:
            raise Undecided("worlds that could not be driven: %s" % aborted[:10])
        missing = [(tr, s) for tr in LANES for s in ("A", "B", "C", "C0") if per[tr][s] == 0]
        if missing:
            raise Undecided("worlds never exercised: %s" % missing)
        for tr in LANES:
            if per[tr]["ret:nil"] == 0 or per[tr]["ret:ctx"] == 0:
                raise Undecided("%s: Shutdown never returned %s: vacuous" % (tr, "nil" if per[tr]["ret:nil"] == 0 else "ctx"))
    for tr in LANES:
        o = obs[tr]
        note = ("%s: in-flight requests answered on the wire: released before the deadline %d/%d, released after "
                "Shutdown had returned its context error %d/%d; handler write errors %d; old port %s; begin witness %s; "
                "restart %s" % (
                    tr, o["inflight_answered_A"], o["inflight_A"], o["inflight_answered_B"], o["inflight_B"],
                    o["handler_write_failed_A"] + o["handler_write_failed_B"],
                    "released" if o["port_still_bound"] == 0 else "STILL BOUND after Shutdown in %d of %d worlds" % (
                        o["port_still_bound"], o["port_still_bound"] + o["port_free"]),
                    {k[8:]: v for k, v in o.items() if k.startswith("witness_")},
                    {k[8:]: v for k, v in o.items() if k.startswith("restart_")}))
        c.notes.append(note)
    c.sample({"worlds_per_transport": {tr: dict(per[tr]) for tr in LANES}})
    c.sample({"observations": {tr: dict(obs[tr]) for tr in LANES}})
    if segs:
        pick = [sg for sg in segs if sg[0]["scen"] == "B" and sg[0]["k"] >= 2][:1] or segs[:1]
        c.sample({"one_world": pick[0][:40]})
    c.assumptions += [
        "the harness sees calls, returns, handler entries and exits; ShutdownBegin and the acceptance of a request are "
        "placed by TLC (silent steps); 'connection refused' at the old address is taken as proof that the listeners "
        "are closed; for QUIC based servers (socket not closed) a 500 ms bound after the call stands in for it",
        "'promptly after the deadline' is judged with a grace period of 3 s",
        "mid and late queries are given 300 ms to reach the handler",
        "TLC, SANY, CommunityModules Json",
    ]


if __name__ == "__main__":
    main("EXT5", run)
