"""C16  Billing counts are conserved across failed and retried uploads."""
import json
import os
from vlib import Check, read_ndjson, main


def run(c: Check):
    th = c.thorough
    # 1. design check, exhaustive
    c.tlc_mc("BillStat", "BillStat_mc.cfg", coverage=th, name="2 devices, 2 concurrent refreshes")
    c.tlc_mc("BillStat", "BillStat_mc1.cfg", coverage=th, name="2 devices, 1 refresh at a time, strict metadata")
    if th:
        c.tlc_mc("BillStat", "BillStat_mc_big.cfg", name="3 devices, 2 refreshes, deeper")
    # 2. behaviours from the spec
    behs = c.tlc_sim("BillStat", "BillStat_sim.cfg", num=400 if th else 60, depth=36 if th else 28)
    steps = [[{"a": s["a"], "d": s["d"], "r": s["r"]} for s in b] for b in behs]
    inp = os.path.join(c.scratch, "c16_behs.json")
    json.dump(steps, open(inp, "w"))
    # 3. real code: replay + seeded random sequences; 4. trace validation
    out, _ = c.go_harness("internal/billstat", "^TestVerifC16Stepper$",
                          env={"VERIF_IN": inp, "VERIF_NRANDOM": 3000 if th else 200, "VERIF_NREF": 2})
    ev = read_ndjson(out)
    fails = c.validate_segments("TraceBillStat", "TraceBillStat.cfg", ev)
    out1, _ = c.go_harness("internal/billstat", "^TestVerifC16Stepper$",
                           env={"VERIF_NRANDOM": 2000 if th else 200, "VERIF_NREF": 1})
    ev1 = read_ndjson(out1)
    fails += c.validate_segments("TraceBillStat", "TraceBillStat1.cfg", ev1)
    # unbounded: the per-device counters as integers, any number of records and uploads (BillCounter.tla)
    c.apalache_inductive("BillCounter", ("pending' = pending + f1 ", "pending' = f1 "))
    out2, _ = c.go_harness("internal/billstat", "^TestVerifC16Stress$", race=True,
                           env={"VERIF_NSTRESS": 60 if th else 10})
    ev2 = read_ndjson(out2)
    fails += c.validate_segments("TraceBillStat", "TraceBillStat.cfg", ev2, is_reset=lambda e: True)
    # the real gRPC uploader behind the recorder, against an in-process backend
    out3, _ = c.go_harness("internal/backendpb", "^TestVerifC16Uploader$", files=["c16b_test.go"],
                           env={"VERIF_NHIST": 400 if th else 40})
    ev3 = read_ndjson(out3)
    for e in ev3:
        if e.get("delivMeta") is None:
            e.pop("delivMeta", None)
    fails += c.validate_segments("TraceBillStat", "TraceBillStat1.cfg", ev3)
    nrej = sum(1 for e in ev3 if e["ev"] == "UploadFail")
    modes = set(e.get("mode") for e in ev3 if e["ev"] == "UploadFail")
    if not {"open", "mid", "final", "deadline", "auth", "badreq", "ratelimit", "quota", "stall"} <= modes:
        from vlib import Undecided
        raise Undecided("uploader harness: rejection modes seen %s" % modes)
    for e in ev + ev1:
        if e["ev"] != "Reset":
            c.cov["evaluations"] += 1
    for tr in (ev, ev1, ev3):
        seg = []
        for e in tr:
            if e["ev"] == "Reset":
                if seg:
                    c.count_case(seg, nontrivial=any(x[0].startswith("Upload") for x in seg))
                    c.cov["evaluations"] -= 1
                seg = []
            else:
                seg.append((e["ev"], e["d"], e["r"]))
        if seg:
            c.count_case(seg, nontrivial=any(x[0].startswith("Upload") for x in seg))
            c.cov["evaluations"] -= 1
    c.cov["rule"] = ("a case is one action sequence (Record/RefreshReset/UploadOK/UploadFail) executed on the real "
                     "RuntimeRecorder; non-trivial = contains at least one completed upload; distinct by the "
                     "sequence of (action, device, refresh) triples; evaluations = events validated")
    c.sample({"behaviour": [(e["ev"], e["d"], e["r"]) for e in ev[1:25]]})
    for seg, idx, reason in fails:
        e = seg[idx]
        acts = [(x["ev"], x.get("d", ""), x.get("r", "")) for x in seg[1:idx + 1]]
        kinds = sorted(set(a[0] for a in acts))
        conc = _max_inflight(acts)
        c.violation({"kind": "trace-rejected", "reason": reason.split()[0], "max_inflight": conc,
                     "last": e.get("ev")},
                    "C16 trace rejected (%s) at %s; actions so far: %s; observed %s" % (
                        reason, e.get("ev"), acts[-12:], json.dumps(e)[:400]),
                    {"segment": seg, "offending_index": idx, "reason": reason})
    c.assumptions += [
        "Upload is the only call through which records leave the recorder; the backend reads the map while Upload runs",
        "metadata fields are abstracted to the serial number of the Record call (all four fields are derived from it "
        "and a mixed record is flagged)",
        "TLC, SANY, CommunityModules Json; Go race detector for the free-running stress",
    ]


def _max_inflight(acts):
    cur, mx = set(), 0
    for a, d, r in acts:
        if a == "RefreshReset":
            cur.add(r)
        elif a.startswith("Upload"):
            cur.discard(r)
        mx = max(mx, len(cur))
    return mx


if __name__ == "__main__":
    main("C16", run)
