"""C15  Only opted-in profiles are logged, and each log line is one intact record."""
import json
import os
import re
from collections import Counter
from vlib import Check, read_ndjson, write_ndjson, main, Undecided, tla_unquote

PKG_A = "internal/dnssvc/internal/mainmw"
PKG_B = "internal/querylog"


def part_a(c: Check):
    th = c.thorough
    c.tlc_mc("QueryLog", "QueryLog_mc.cfg",
             name="attribution x flags x 7 fates x 7 filter outcomes x 5 protocols x location x answer facts")
    c.cov["exhaustive"] = True
    for cfg, inv, what in [
        ("QueryLog_sanity.cfg", "IPIffIPLog", "client address logged regardless of the IP-log flag"),
        ("QueryLog_sanity_log_anon.cfg", "LoggedIff", "anonymous requests logged"),
        ("QueryLog_sanity_bill_anon.cfg", "BilledIff", "anonymous requests billed"),
        ("QueryLog_sanity_log_disabled.cfg", "LoggedIff", "logged although the profile's query log is off"),
        ("QueryLog_sanity_rcode_upstream.cfg", "EntryDescribesOwnRequest", "rcode taken from the upstream answer"),
        ("QueryLog_sanity_log_dropped.cfg", "NothingForDropped", "dropped requests recorded"),
    ]:
        c.tlc_mc("QueryLog", cfg, expect_violation=inv, name="sanity: " + what)

    out, _ = c.go_harness(PKG_A, "^TestVerifC15$", files=["c15_test.go"],
                          env={"VERIF_REPS": 24 if th else 3, "VERIF_WORKERS": 8})
    ev = read_ndjson(out)
    reqs = [e for e in ev if e["ev"] == "req"]
    if len(reqs) < 500:
        raise Undecided("only %d requests recorded" % len(reqs))
    path = os.path.join(c.scratch, "c15a.ndjson")
    write_ndjson(path, ev)
    r = c.tlc_trace("TraceQueryLog", "TraceQueryLog.cfg", path, heap="3g")
    if r.tuples("STUCK"):
        raise Undecided("trace spec stuck: %s\n%s" % (r.tuples("STUCK"), r.out[-2000:]))
    if not r.ok and not r.tuples("NONCONF"):
        raise Undecided("trace run failed:\n%s" % r.out[-3000:])
    bad = _dedup(r.tuples("NONCONF"))
    c.cov["traces_validated_against_impl"] += len(ev) - len(bad)

    # vacuity: every class of the decision table was exercised and observed
    fates = Counter(e["a"]["fate"] for e in reqs)
    for f in ("processed", "debug", "failed", "undelivered", "ratelimited", "accessblocked", "unknowndedicated"):
        if fates[f] == 0:
            raise Undecided("vacuous: fate %s never exercised" % f)
    # (on the inputs, never on what was observed)
    must = [e for e in reqs if e["a"]["attr"] == "profile" and e["a"]["qlog"] and e["a"]["fate"] == "processed"]
    n_ip = sum(1 for e in must if e["a"]["iplog"])
    outcomes = Counter(e["a"]["outcome"] for e in must)
    if len(must) < 100 or n_ip == 0 or n_ip == len(must) or len(outcomes) < 7:
        raise Undecided("vacuous: must-log=%d with iplog=%d outcomes=%s" % (len(must), n_ip, dict(outcomes)))
    if not any(e["q"]["rcode"] != e["q"]["upsrcode"] for e in must):
        raise Undecided("vacuous: sent rcode never differs from the upstream rcode")
    if not any(e["a"]["attr"] == "profile" and not e["a"]["qlog"] and e["a"]["fate"] == "processed" for e in reqs):
        raise Undecided("vacuous: no profile request with the query log off")
    if not any(e["a"]["attr"] == "anon" and e["a"]["fate"] == "processed" for e in reqs):
        raise Undecided("vacuous: no anonymous request")
    logged = [e for e in reqs if e["o"]["logged"] > 0]
    for e in reqs:
        a = e["a"]
        c.count_case(("A", a["attr"], a["qlog"], a["iplog"], a["fate"], a["outcome"], a["proto"], a["loc"],
                      e["q"]["qt"], e["conc"]["drop"], e["conc"]["fail"], e["conc"]["mode"], e["q"]["upsrcode"],
                      e["phase"]),
                     nontrivial=a["attr"] == "profile" or a["fate"] != "processed")
    if logged:
        c.sample({"part": "A", "vector": logged[0]["a"], "line": logged[0]["o"]["raw"].strip()})
    anon = [e for e in reqs if e["a"]["attr"] == "anon" and e["a"]["fate"] == "processed"]
    if anon:
        c.sample({"part": "A", "vector": anon[0]["a"], "name": anon[0]["conc"]["name"],
                  "logged": anon[0]["o"]["logged"], "billed": anon[0]["o"]["billed"]})
    seen = Counter()
    bad = _dedup(bad)
    for t in bad:
        e = ev[int(t[0]) - 1]
        reasons = t[1]
        if e["ev"] == "orphan":
            seen[("orphan", e["phase"])] += 1
            if seen[("orphan", e["phase"])] > 2:
                continue
            c.violation({"kind": "orphan"}, "C15 %s (phase %s)" % (e["conc"]["what"], e["phase"]), e)
            continue
        clause = re.findall(r'"([A-Za-z]+)', reasons)
        clause = clause[0] if clause else "?"
        a = e["a"]
        key = (clause, a["attr"], a["fate"])
        seen[key] += 1
        if seen[key] > 3:
            continue
        c.violation({"kind": "nonconf", "clause": clause, "attr": a["attr"], "fate": a["fate"]},
                    "C15 %s: request %s type %d via %s from %s, attr=%s qlog=%s iplog=%s fate=%s(%s%s) outcome=%s "
                    "mode=%s sent rcode=%s upstream rcode=%s -> lines=%d billing=%d line=%s bill=%s" % (
                        reasons, e["conc"]["name"], e["q"]["qt"], a["proto"], e["conc"]["client"], a["attr"],
                        a["qlog"], a["iplog"], a["fate"], e["conc"]["drop"], e["conc"]["fail"], a["outcome"],
                        e["conc"]["mode"], e["q"]["rcode"], e["q"]["upsrcode"], e["o"]["logged"], e["o"]["billed"],
                        e["o"]["raw"].strip(), json.dumps(e["o"]["bill"])), e)
    return len(reqs), len(logged)


def part_b(c: Check):
    th = c.thorough
    c.tlc_mc("QueryLogFile", "QueryLogFile_mc.cfg",
             name="4 writers x 3 entries, all interleavings of Reset / Encode / AppendOnce")
    c.tlc_mc("QueryLogFile", "QueryLogFile_sanity.cfg", expect_violation="FileIsWholeLines",
             name="sanity: object and line feed in two writes leave a partial line in the file")
    c.tlc_mc("QueryLogFile", "QueryLogFile_sanity_interleave.cfg", expect_violation="LinesIntact",
             name="sanity: two writes, interleaved: a terminated line that is not one object")
    c.tlc_mc("QueryLogFile", "QueryLogFile_sanity_shared.cfg", expect_violation="OnePerLogged",
             name="sanity: one buffer shared by all writers loses entries")
    rounds = [(16, 200, 0)]
    if th:
        rounds = [(16, 2000, 0), (64, 1000, 0), (4, 5000, 2), (128, 300, 0), (32, 1500, 4), (8, 4000, 0)]
    total_lines = total_writes = 0
    syscall_level = True
    for (n, per, procs) in rounds:
        out, _ = c.go_harness(PKG_B, "^TestVerifC15File$", files=["c15_test.go"],
                              env={"VERIF_WRITERS": n, "VERIF_PER": per, "VERIF_PROCS": procs}, timeout=1200)
        ev = read_ndjson(out)
        info = [e for e in ev if e["ev"] == "Info"]
        straced = bool(info and info[0].get("straced"))
        if not straced:
            syscall_level = False
            c.notes.append("part B round %dx%d: strace unavailable (%s); read-back observation only" % (
                n, per, info[0].get("why") if info else "?"))
        writes = [e for e in ev if e["ev"] == "Write"]
        lines = [e for e in ev if e["ev"] == "Line"]
        done = [e for e in ev if e["ev"] == "Done"]
        crashed = bool(info and info[0].get("crashed"))
        if not crashed and (not done or sum(done[0]["returned"]) < n * per // 2):
            raise Undecided("part B: writers did not complete: %s" % (done[:1],))
        if straced and not crashed and len(writes) < n * per // 2:
            raise Undecided("part B: only %d write syscalls seen for %d entries" % (len(writes), n * per))
        path = os.path.join(c.scratch, "c15b.ndjson")
        write_ndjson(path, ev)
        r = c.tlc_trace("TraceQueryLogFile", "TraceQueryLogFile.cfg", path, heap="4g", timeout=1500)
        if r.tuples("STUCK"):
            raise Undecided("file trace spec stuck: %s\n%s" % (r.tuples("STUCK"), r.out[-2000:]))
        if not r.ok and not r.tuples("NONCONF"):
            raise Undecided("file trace run failed:\n%s" % r.out[-3000:])
        bad = _dedup(r.tuples("NONCONF"))
        if crashed and not bad:
            raise Undecided("part B: the writer process died and nothing it wrote before is rejected: %s" %
                            info[0].get("why"))
        c.cov["traces_validated_against_impl"] += len(ev) - len(bad)
        total_lines += len(lines)
        total_writes += len(writes)
        c.cov["evaluations"] += len(writes) + len(lines)
        # a case of part B is one (writers, entries, GOMAXPROCS) run; its schedule is whatever the machine produced
        c.count_case(("B", n, per, procs, [(e["tid"], tuple((t["w"], t["k"]) for t in e["toks"])) for e in writes[:2000]]))
        c.cov["evaluations"] -= 1
        if writes:
            c.sample({"part": "B", "syscall": writes[0]["call"], "bytes": writes[0]["n"], "ret": writes[0]["ret"],
                      "toks": writes[0]["toks"], "head": writes[0]["head"][:120]})
        seen = Counter()
        for t in bad:
            e = ev[int(t[0]) - 1]
            reasons = t[1]
            kind = e["ev"]
            seen[kind] += 1
            if seen[kind] > 3:
                continue
            what = {"Write": "%s of %s bytes -> %s, tokens %s, starts %r" % (
                        e.get("call"), e.get("n"), e.get("ret"), _toks(e), (e.get("head") or "")[:200]),
                    "Open": "%s flags %s" % (e.get("call"), e.get("flags")),
                    "Line": "file line %s tokens %s: %r" % (e.get("idx"), _toks(e), (e.get("raw") or "")[:400]),
                    "Rest": "bytes after the last line feed: %r" % ((e.get("raw") or "")[:300]),
                    "Done": "returned per writer %s, lines %s" % (e.get("returned"), e.get("lines")),
                    }.get(kind, json.dumps(e)[:300])
            c.violation({"kind": "file", "event": kind},
                        "C15 log file, %d writers x %d entries (seed %s): %s: %s" % (
                            n, per, os.environ.get("VERIF_SEED", "1"), reasons, what), e)
    c.cov["syscall_level"] = syscall_level
    return total_writes, total_lines


def part_c(c: Check):
    """Stack level: the handlers dnssvc.NewHandlers wires for several servers in several groups."""
    th = c.thorough
    out, _ = c.go_harness("internal/dnssvc", "^TestVerifC15Stack$", files=["c15_test.go"],
                          env={"VERIF_ROUNDS": 10 if th else 3, "VERIF_PER": 300 if th else 100}, timeout=1500)
    ev = read_ndjson(out)
    prof = [e for e in ev if e["attr"] == "profile"]
    if len(ev) < 400 or len(set((e["grp"], e["srv"]) for e in prof)) < 7 or not any(e["logs"] for e in prof) \
            or not any(not e["qlog"] for e in prof) or len(set(e["proto"] for e in prof if e["logs"])) < 4:
        raise Undecided("stack harness vacuous: %d requests, %d attributed" % (len(ev), len(prof)))
    vias = Counter(e["via"] for e in ev)
    if not vias["dedicated-ip"] or not vias["dedicated-ip/deleted-profile"] or not vias["sni/deleted-profile"] \
            or not vias["linked-ip-not-enabled-here"] or not vias["linked-ip"]:
        raise Undecided("stack harness vacuous: ways of recognition %s" % dict(vias))
    path = os.path.join(c.scratch, "c15c.ndjson")
    write_ndjson(path, ev)
    r = c.tlc_trace("TraceQueryLogStack", "TraceQueryLogStack.cfg", path, heap="2g")
    if r.tuples("STUCK"):
        raise Undecided("stack trace spec stuck")
    bad = _dedup(r.tuples("NONCONF"))
    c.cov["traces_validated_against_impl"] += len(ev) - len(bad)
    for e in ev:
        c.count_case(("C", e["grp"], e["srv"], e["attr"], e["qlog"], e["iplog"], e["via"], e["qt"], e["mode"], e["prof"]),
                     nontrivial=e["attr"] == "profile")
    c.sample({"part": "C", "request": {k: ev[0][k] for k in ("grp", "srv", "proto", "attr", "via", "logs", "bills")}})
    seen = Counter()
    for t in bad:
        e = ev[int(t[0]) - 1]
        clause = (re.findall(r'"([A-Za-z]+)', t[1]) or ["?"])[0]
        seen[clause] += 1
        if seen[clause] > 3:
            continue
        c.violation({"kind": "stack", "clause": clause, "attr": e["attr"]},
                    "C15 %s: request %s type %d served by %s/%s (protocol %d, %s, attributed via %s to %s/%s qlog=%s iplog=%s) "
                    "-> entries %s, billing %s" % (t[1], e["name"], e["qt"], e["grp"], e["srv"], e["proto"], e["mode"], e["via"],
                                                   e["prof"], e["dev"], e["qlog"], e["iplog"], json.dumps(e["logs"]),
                                                   json.dumps(e["bills"])), e)
    return len(ev)


def _toks(e):
    return [(t["t"], t["w"], t["k"]) if t["t"] == "obj" else t["t"] for t in e.get("toks", [])][:8]


def _dedup(tuples):
    """TLC may evaluate a step (and its PrintT) more than once."""
    res, seen = [], set()
    for t in tuples:
        k = (t[0], t[1])
        if k not in seen:
            seen.add(k)
            res.append(t)
    return res


def part_d(c: Check):
    """'a query attributed to a profile produces a billing record' past the recorder: the record must still be there when
    an upload fails and is merged back (the stepper and the trace specification of C16, two overlapping refreshes)."""
    th = c.thorough
    behs = c.tlc_sim("BillStat", "BillStat_sim.cfg", num=150 if th else 40, depth=32 if th else 28)
    inp = os.path.join(c.scratch, "c15_bill_behs.json")
    json.dump([[{"a": s["a"], "d": s["d"], "r": s["r"]} for s in b] for b in behs], open(inp, "w"))
    out, _ = c.go_harness("internal/billstat", "^TestVerifC16Stepper$", files=["c16_test.go"],
                          env={"VERIF_IN": inp, "VERIF_NRANDOM": 1500 if th else 200, "VERIF_NREF": 2})
    ev = read_ndjson(out)
    nfail = sum(1 for e in ev if e["ev"] == "UploadFail")
    if nfail < 20:
        raise Undecided("billing leg vacuous: %d failed uploads" % nfail)
    c.cov["traces_validated_against_impl"] += sum(1 for e in ev if e["ev"] == "Reset")
    for seg, idx, reason in c.validate_segments("TraceBillStat", "TraceBillStat.cfg", ev):
        e = seg[idx]
        acts = [(x["ev"], x.get("d", ""), x.get("r", "")) for x in seg[1:idx + 1]]
        c.violation({"kind": "billing-record-lost", "last": e.get("ev"), "reason": reason.split()[0]},
                    "C15 billing records after a failed upload: trace rejected (%s) at %s; actions so far: %s; observed %s" % (
                        reason, e.get("ev"), acts[-12:], json.dumps(e)[:400]),
                    {"segment": seg, "offending_index": idx, "reason": reason})
    return len(ev)


def run(c: Check):
    nreq, nlogged = part_a(c)
    nwrites, nlines = part_b(c)
    nstack = part_c(c)
    part_d(c)
    c.cov["rule"] = (
        "part A: a case is one DNS request through ratelimitmw -> mainmw -> real querylog.FileSystem (%d requests, "
        "%d logged); distinct by (attribution, flags, fate and its kind, filter outcome, protocol, location, qtype, "
        "blocking mode, upstream rcode, phase); non-trivial = attributed to a profile or not plainly processed.  "
        "part B: a case is one concurrent run; evaluations count every write(2) on the log descriptor (%d) and "
        "every line read back (%d).  part C: a case is one request through the handler that dnssvc.NewHandlers built "
        "for one of 8 servers (5 protocols) in 2 server groups, sequentially and 8 at a time (%d requests), with "
        "recording query-log and billing fakes" % (nreq, nlogged, nwrites, nlines, nstack))
    c.assumptions += [
        "the filter, upstream, device finder and GeoIP database are scripted; ratelimitmw, mainmw, access, dnsmsg "
        "and querylog.FileSystem are the real code",
        "part B: the tokeniser (bytes -> obj/nl/junk) and the documented object per entry are computed in the Go "
        "harness; strace reports write(2) calls in completion order; interleavings are those the scheduler "
        "produced in the runs, every interleaving of the modelled steps is covered by TLC only",
        "the kernel appends an O_APPEND write(2) to a regular file atomically",
        "TLC, SANY, CommunityModules Json, strace",
    ]


if __name__ == "__main__":
    main("C15", run)
