"""C05  Client subnets stay private and ECS-dependent answers stay in their region."""
import json
import os
from vlib import Check, read_ndjson, write_ndjson, main, Undecided


def run(c: Check):
    th = c.thorough
    c.tlc_mc("EcsCache", "EcsCache_mc.cfg", name="2 locations x 2 families x 4 option kinds x 2 questions, all histories")
    c.tlc_mc("EcsCache", "EcsCache_sanity_shared.cfg", expect_violation="RegionalAnswers",
             name="sanity: scoped answers in the shared store cross regions")
    c.tlc_mc("EcsCache", "EcsCache_sanity_fwd.cfg", expect_violation="UpstreamSubnetIsCoarse",
             name="sanity: client-supplied subnet forwarded")
    if th:
        c.tlc_mc("EcsCache", "EcsCache_mc_big.cfg", timeout=1800, name="3 locations")
    out, _ = c.go_harness("internal/dnssvc", "^TestVerifC05$", files=["c05_test.go"],
                          env={"VERIF_NHIST": 1500 if th else 120})
    ev = read_ndjson(out)
    path = os.path.join(c.scratch, "c05.ndjson")
    write_ndjson(path, ev)
    r = c.tlc_trace("TraceEcsCache", "TraceEcsCache.cfg", path, timeout=1800)
    if r.tuples("STUCK"):
        raise Undecided("trace spec stuck: %s\n%s" % (r.tuples("STUCK"), r.out[-1500:]))
    bad = r.tuples("NONCONF")
    qs = [e for e in ev if e["ev"] == "Query"]
    c.cov["traces_validated_against_impl"] += len([e for e in ev if e["ev"] == "Reset"])
    hits = sum(1 for e in qs if e["fwd"] == "none" and e["opt"] != "malformed")
    scoped_hits = sum(1 for e in qs if e["fwd"] == "none" and "@" in e["content"])
    kinds = set(e["opt"] for e in qs)
    if hits < 50 or scoped_hits < 10 or kinds != {"absent", "valid", "zero", "malformed"}:
        raise Undecided("vacuous: %d cache hits, %d scoped hits, option kinds %s" % (hits, scoped_hits, kinds))
    for e in qs:
        c.count_case((e["client"]["addr"], e["opt"], e["optsub"], e["q"], e["fwd"], e["content"]), nontrivial=e["fwd"] == "none")
    c.cov["rule"] = ("a case is one query in a history of 7 clients (v4/v6, two regions or unknown) with ECS option absent/"
                     "valid/zero/malformed over scoped and unscoped names through the real handler stack with the ECS "
                     "cache; non-trivial = answered from cache; distinct by (client, option, name, forwarded subnet, answer)")
    c.sample([e for e in qs if e["fwd"] != "none"][:2] + [e for e in qs if e["fwd"] == "none" and "@" in e["content"]][:2])
    for t in bad:
        e = ev[int(t[0]) - 1]
        c.violation({"kind": "nonconf", "opt": e["opt"], "reason": t[1][:70]},
                    "C05 client %s (%s, %s) opt=%s %s name=%s -> fwd=%s rcode=%s content=%s echo=%s/%s/%s: %s" % (
                        e["client"]["addr"], e["client"]["fam"], e["client"]["loc"], e["opt"], e["optsub"], e["q"], e["fwd"],
                        e["rcode"], e["content"], e["echoaddr"], e["echolen"], e["echoscope"], t[1]),
                    {"event": e, "history": [x for x in ev if x.get("beh") == e.get("beh") and x.get("id", 0) <= e.get("id", 0)]})
    # ---- GeoIP side: the location of an address is a function of the address alone (real geoip.File)
    outg, _ = c.go_harness("internal/geoip", "^TestVerifC05GeoIPCache$", files=["c05geo_test.go"],
                           env={"VERIF_ROUNDS": 30 if th else 6})
    gev = read_ndjson(outg)
    if len(gev) < 200 or not any(e["mapped"] for e in gev) or len(set(e["cold"] for e in gev)) < 5:
        raise Undecided("GeoIP harness vacuous: %d look-ups, %d distinct locations" % (len(gev), len(set(e["cold"] for e in gev))))
    gpath = os.path.join(c.scratch, "c05geo.ndjson")
    write_ndjson(gpath, [{"warm": e["warm"], "cold": e["cold"]} for e in gev])
    rg = c.tlc_trace("TraceGeoIPCache", "TraceGeoIPCache.cfg", gpath, timeout=600)
    if rg.tuples("STUCK"):
        raise Undecided("GeoIP trace spec stuck")
    c.cov["traces_validated_against_impl"] += len(gev) - len(rg.tuples("NONCONF"))
    for e in gev:
        c.count_case(("geo", e["ip"], e["step"]), nontrivial=e["cold"] != "nil")
    for t in rg.tuples("NONCONF"):
        e = gev[int(t[0]) - 1]
        c.violation({"kind": "geoip-cache", "mapped": e["mapped"]},
                    "C05 geoip.File look-up no. %d of %s: warm instance says %s, a fresh instance says %s: %s" % (
                        e["step"], e["ip"], e["warm"], e["cold"], t[1]), e)
    c.assumptions += ["GeoIP is a fake with a fixed table in the handler-stack harness (the real geoip.File with the "
                      "repository's MaxMind test databases is checked separately for look-up history independence); client address, client-supplied subnet and coarse subnet are "
                      "pairwise different", "the upstream fake scopes answers of names under s. to the received subnet",
                      "C05 is claimed for cache.type ecs only (DESIGN 6 C05)", "TLC, SANY, CommunityModules Json"]


if __name__ == "__main__":
    main("C05", run)
