"""C02  Filtering verdict follows rule precedence and the requester's blocking mode."""
import json
import os
import re
from concurrent.futures import ThreadPoolExecutor

from vlib import Check, REPO, HARNESS, read_ndjson, write_ndjson, main, Undecided

FS_PKG = "internal/filter/filterstorage"
MW_PKG = "internal/dnssvc/internal/mainmw"

SANITY = (
    ("Filtering_sanity_rewrite.cfg", "RewriteWinsOutright", "rule lists consulted before the custom rules for $dnsrewrite"),
    ("Filtering_sanity_allow.cfg", "AllowBeatsBlock", "a block rule beats an allow rule of another source"),
    ("Filtering_sanity_customallow.cfg", "CustomAllowSkipsSafety", "safety filters applied despite the profile's own allow rule"),
    ("Filtering_sanity_order.cfg", "SafetyOrder", "adult filter asked before the dangerous-domain filter"),
    ("Filtering_sanity_reqresp.cfg", "RequestBeatsResponse", "a response-side block overrides a request-side allow"),
    ("Filtering_sanity_disabled.cfg", "DisabledMeansUnfiltered", "the device's FilteringEnabled switch is ignored"),
    ("Filtering_sanity_ttl.cfg", "TTLIsProfiles", "blocked answers carry the server-wide default TTL"),
    ("Filtering_sanity_mode.cfg", "ShapeFollowsMode", "REFUSED mode answers NOERROR to HTTPS queries"),
    ("Filtering_sanity_upstream.cfg", "NoUpstreamDataWhenBlocked", "custom-IP mode without an address of the family falls back to the upstream answer"),
)


def vec_key(v):
    return "%s/%s/%s/%s|%s|%s/%s|%d%d" % (v["c"], v["r1"], v["r2"], v["s"], ",".join(x[0] for x in v["sf"]),
                                           v["rc"], v["rr"], v["pen"], v["den"])


def obs(o):
    return "%s by %s (%s) rule %r%s" % (o["type"], o["list"] or "-", o["src"], o["rule"],
                                         (" -> " + o["val"]) if o["val"] else "")


def describe(e, reasons):
    k = e["conc"]
    s = ("C02 %s line %d: %s; vector %s mode=%s; query %s %s; custom rules (enabled=%s) %s; rule lists (enabled=%s) "
         "in configured order %s: rl1 has %s, rl2 has %s; response rules custom %s rl1 %s on %s; blocked services %s "
         "(rules in %s); parental=%s adult=%s ssgen=%s ssyt=%s safebrowsing=%s dangerous=%s newreg=%s, safety sources "
         "listing the host %s; decoys %s; profile FilteringEnabled=%s device FilteringEnabled=%s, profile TTL %ss, "
         "custom block addresses %s %s; upstream class %s -> request verdict %s; response verdict %s" % (
             e["h"], e["id"], reasons, vec_key(e["v"]), e["mode"], k["qname"], e["qt"], k["flags"]["custom"],
             k["customrules"], k["flags"]["rulelist"], k["order"], k["rules"]["rl1"], k["rules"]["rl2"],
             k["rrules"]["custom"], k["rrules"]["rl1"], k["rsubj"], k["svcs"], k["rules"]["svc"],
             k["flags"]["parental"], k["flags"]["adult"], k["flags"]["ssgen"], k["flags"]["ssyt"],
             k["flags"]["safebrowsing"], k["flags"]["dangerous"], k["flags"]["newreg"], k["listed"], k["decoys"],
             e["v"]["pen"], e["v"]["den"], k["ttl"], k["cip4"], k["cip6"], e["ups"], obs(e["req"]), obs(e["resp"])))
    if e["h"] == "full":
        m = e["msg"]
        s += "; written message rcode=%s answer=%s adguard-soa=%s(ttl %s) upstream-records=%s same-as-upstream=%s err=%r" % (
            m["rcode"], [(a["t"], a["v"], a["ttl"]) for a in m["ans"]], m["soa"], m["soattl"], m["marker"],
            m["sameups"], m["err"])
    return s


def _ctie(e):
    """The profile's own allow rule for the host is at least as specific (urlfilter: number of modifiers)
    as every matching shared allow rule; computed from the concrete rule texts of the slots."""
    v, rules = e["v"], e["conc"]["rules"]
    if v["c"] != "allow":
        return False

    def spec(slot):
        return max([1 if "$" in r else 0 for r in rules[slot] if r.startswith("@@")] or [0])
    shared = [spec(sl) for sl, cls in (("rl1", v["r1"]), ("rl2", v["r2"])) if cls == "allow"]
    return spec("custom") >= max(shared or [0])


def validate(c, name, events):
    for e in events:
        e["ctie"] = _ctie(e)
    path = os.path.join(c.scratch, name + ".ndjson")
    write_ndjson(path, events)
    r = c.tlc_trace("TraceFiltering", "TraceFiltering.cfg", path, timeout=1200)
    if r.tuples("STUCK"):
        raise Undecided("trace spec stuck: %s" % r.tuples("STUCK"))
    bad = r.tuples("NONCONF")
    if not r.ok and not bad:
        raise Undecided("trace TLC run failed:\n%s" % r.out[-3000:])
    if r.diameter != len(events) + 1:
        raise Undecided("trace TLC run consumed %s of %d lines:\n%s" % (r.diameter, len(events), r.out[-2000:]))
    c.cov["traces_validated_against_impl"] += len(events) - len(bad)
    return [(events[int(t[0]) - 1], t[1]) for t in bad]


def run(c: Check):
    th = c.thorough
    # ---- design level
    c.tlc_mc("Filtering", "Filtering_mc.cfg", coverage=th,
             name="verdict: 7^3 rule slots x 2 services x 7 reduced safety vectors x 3x3 response classes, plus "
                  "profile/device switches against a reduced product")
    c.tlc_mc("Filtering", "Filtering_safety_mc.cfg",
             name="safety order: all 3^5 safety vectors x rule contexts that reach them")
    c.tlc_mc("Filtering", "Filtering_shape_mc.cfg",
             name="shape: 6 final effects x 5 blocking modes x 4 qtypes x 4 upstream classes")
    if th:
        c.tlc_mc("Filtering", "Filtering_mc_big.cfg", timeout=2400,
                 name="verdict, complete product: 7^3 x 2 x 3^5 x 3 x 2 (filtering enabled)")
    c.cov["exhaustive"] = True
    with ThreadPoolExecutor(max_workers=3) as ex:
        futs = [ex.submit(c.tlc_mc, "Filtering", cfg, 2, 300, False, inv, False, "sanity: " + what)
                for cfg, inv, what in SANITY]
        for f in futs:
            f.result()

    # ---- code level: the filter returned by the real storage
    world_src = ["c02_world_test.go", "c02_pkg_test.go"]
    out_f, _ = c.go_harness(FS_PKG, "^TestVerifC02Flt$", files=world_src + ["c02_test.go"],
                            env={"VERIF_N": 1500, "VERIF_WORLDS": 3 if th else 2, "VERIF_REPS": 3 if th else 1})
    flt = read_ndjson(out_f)

    # the concretiser is shared: same file, package clause rewritten
    world = open(os.path.join(HARNESS, FS_PKG, "c02_world_test.go")).read()
    world, n = re.subn(r"^package filterstorage$", "package mainmw", world, count=1, flags=re.M)
    if n != 1:
        raise Undecided("cannot rewrite the package clause of c02_world_test.go")
    world_copy = os.path.join(c.scratch, "c02_world_mainmw_test.go")
    with open(world_copy, "w") as f:
        f.write(world)
    out_m, _ = c.go_harness(MW_PKG, "^TestVerifC02Full$", files=["c02_pkg_test.go", "c02_test.go"],
                            extra_overlay={os.path.join(REPO, MW_PKG, "zz_verif_c02_world_test.go"): world_copy},
                            env={"VERIF_WORLDS": 2, "VERIF_REPS": 2 if th else 1})
    full = read_ndjson(out_m)
    if len(flt) < 800 or len(full) < 1500:
        raise Undecided("too few lines recorded: %d filter-level, %d full-stack" % (len(flt), len(full)))

    bad = validate(c, "c02_flt", flt) + validate(c, "c02_full", full)

    # ---- secondary configuration: safety filters whose replacement host is an IP address
    out_ip, _ = c.go_harness("internal/filter/hashprefix", "^TestVerifC02SafetyIP$", files=["c02ip_test.go", "c12_test.go"],
                             env={"VERIF_REPS": 6 if th else 2})
    ipev = read_ndjson(out_ip)
    if len(ipev) < 150:
        raise Undecided("safety-IP harness recorded only %d lines" % len(ipev))
    ippath = os.path.join(c.scratch, "c02_ip.ndjson")
    write_ndjson(ippath, ipev)
    rip = c.tlc_trace("TraceSafetyIP", "TraceSafetyIP.cfg", ippath, timeout=600)
    if rip.tuples("STUCK") or (not rip.ok and not rip.tuples("NONCONF")):
        raise Undecided("safety-IP trace run failed:\n%s" % rip.out[-2000:])
    ipbad = rip.tuples("NONCONF")
    c.cov["traces_validated_against_impl"] += len(ipev) - len(ipbad)
    for e in ipev:
        c.count_case(("safety-ip", e["fam"], e["mode"], e["qt"], e["listed"], e["host"]), nontrivial=e["listed"])

    # ---- vacuity accounting (a verdict from the real code outranks it: see the end)
    vac = []
    kinds = {}
    for e in flt + full:
        o = e["req"]
        k = (o["type"], o["src"] if o["src"] in ("dangerous", "adult", "ssgen", "ssyt", "newreg") else
             ("rule" if o["src"] != "-" else "-"))
        kinds[k] = kinds.get(k, 0) + 1
        c.count_case((e["h"], vec_key(e["v"]), e["mode"], e["qt"], e["ups"], e["conc"]["customrules"],
                      e["conc"]["rules"], e["conc"]["order"], e["conc"]["flags"], e["conc"]["rrules"]),
                     nontrivial=vec_key(e["v"]) != "none/none/none/none|o,o,o,o,o|none/none|11")
    need = [("blocked", "rule"), ("allowed", "rule"), ("modresp", "rule"), ("modreq", "rule"), ("none", "-")] + \
           [("modreq", s) for s in ("dangerous", "adult", "ssgen", "ssyt", "newreg")]
    miss = [k for k in need if kinds.get(k, 0) < 5]
    if miss:
        vac.append("vacuous: request verdict kinds (almost) never observed: %s (seen %s)" % (miss, kinds))
    rk = {}
    for e in flt + full:
        rk[e["resp"]["type"]] = rk.get(e["resp"]["type"], 0) + 1
    if min(rk.get("blocked", 0), rk.get("allowed", 0), rk.get("none", 0)) < 20:
        vac.append("vacuous: response verdict kinds %s" % rk)
    shapes = set()
    n_dis = n_leak_checked = 0
    for e in full:
        m = e["msg"]
        if e["req"]["type"] == "blocked" or (e["req"]["type"] == "none" and e["resp"]["type"] == "blocked"):
            shapes.add((e["mode"], e["qt"]))
            n_leak_checked += 1
        if not (e["v"]["pen"] and e["v"]["den"]):
            n_dis += 1
        if not m["written"] and not m["err"]:
            raise Undecided("harness: no message and no error on line %d" % e["id"])
    if len(shapes) < 20:
        vac.append("vacuous: only %d of 20 (blocking mode x qtype) classes produced a blocked answer: %s" % (
            len(shapes), sorted(shapes)))
    if n_dis < 100:
        vac.append("vacuous: only %d queries with filtering disabled for the profile or device" % n_dis)
    svec = {vec_key(e["v"]) for e in flt}
    c.notes.append("filter-level lines %d (%d distinct abstract vectors), full-stack lines %d (%d blocked answers over "
                   "all 20 mode x qtype classes, %d with filtering disabled); request verdict kinds %s; response "
                   "verdict kinds %s" % (len(flt), len(svec), len(full), n_leak_checked, n_dis,
                                          {"%s/%s" % k: v for k, v in sorted(kinds.items())}, rk))
    c.cov["rule"] = ("one line per query: (filter level) FilterRequest + FilterResponse of the filter returned by a real "
                     "filterstorage.Default for the client configuration of the vector; (full stack) a request through "
                     "the real ratelimitmw + mainmw with that storage, a scripted upstream and a recording query log. "
                     "Vectors: rule-slot product x reduced safety (all in thorough, 1500 sampled in quick), all 3^5 safety "
                     "vectors, 37 verdict scenarios x 5 blocking modes x 4 qtypes x 4 upstream classes.  distinct by "
                     "(level, abstract vector, mode, qtype, upstream class, rule texts per slot, configured list order, "
                     "group switches, response rules); non-trivial = any rule, safety match or switch off")
    for smp in ([e for e in full if e["req"]["type"] == "blocked"][:1] +
                [e for e in full if e["req"]["type"] == "modreq"][:1] +
                [e for e in flt if e["req"]["type"] == "allowed"][:1] +
                [e for e in flt if e["req"]["src"] in ("dangerous", "adult")][:1]):
        c.sample(smp)

    if bad:
        c.notes.append("non-conforming lines: %d" % len(bad))
    for e, reasons in bad:
        first = sorted(re.findall(r'"([^"]+)"', reasons))[:1]
        c.violation({"kind": "nonconf", "h": e["h"], "vec": vec_key(e["v"]), "mode": e["mode"], "qt": e["qt"],
                     "ups": e["ups"], "reason": (first[0] if first else reasons)[:80]},
                    describe(e, reasons), e)
    for t in ipbad:
        e = ipev[int(t[0]) - 1]
        c.violation({"kind": "safety-ip", "mode": e["mode"], "qt": e["qt"], "fam": e["fam"]},
                    "C02 safety filter with replacement address %s: %s %s (listed=%s) for a profile in %s mode, TTL %d -> %s: %s" % (
                        e["repl"], e["host"], e["qt"], e["listed"], e["mode"], e["ttl"], json.dumps(e["res"]), t[1]), e)
    if vac and not bad and not ipbad:
        raise Undecided("; ".join(vac))
    c.assumptions += [
        "the concretiser's rule templates (||h^, |h^, @@, $dnstype=T / ~T, $dnsrewrite=IP / NOERROR;A;IP / name / "
        "NOERROR;CNAME;name / REFUSED|NXDOMAIN|SERVFAIL, 'IP h' hosts lines, regex) have the meaning documented for the "
        "AdGuard DNS filtering syntax; urlfilter itself is trusted",
        "one abstract class per rule slot and host; $important, $client, $badfilter, $dnsrewrite exceptions, several "
        "verdict classes in one list, and self-referential CNAME rewrites are outside the grammar",
        "when both the profile's custom rules and a shared list allow a name the statement's 'deciding allow rule' is "
        "either; both outcomes are admitted (the code picks the more specific rule, so a shared list's "
        "@@||h^$dnstype=A outranks the profile's @@||h^ and the safety filters then still apply)",
        "safety filters use replacement host names (block pages), as in production configuration; TXT queries are kept "
        "away from hosts listed by a safety source; result caches are never hit twice (unique host per line; cache "
        "effects belong to C12)",
        "upstream, device finder, rate limiter, GeoIP, billing and query log are recording fakes; the query log "
        "reports the verdicts the middleware acted on",
        "TLC, SANY, CommunityModules Json",
    ]


if __name__ == "__main__":
    main("C02", run)
