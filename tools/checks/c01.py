"""C01  Every accepted query gets exactly one matching answer on every transport."""
import json
import os
import re
from vlib import Check, read_ndjson, write_ndjson, main, Undecided

TRANSPORTS = ["udp", "tcp", "dot", "doh-post", "doh-get", "doh-json", "doq", "dnscrypt-udp", "dnscrypt-tcp"]
# the fields TraceDispatch.tla reads of an "In" line: lines that agree on them get the same verdict
ABSTRACT = ("t", "wire", "qr", "op", "qd", "an", "ns", "h", "kind", "n", "called", "rcode", "idok", "qok", "tc", "hwrote",
            "rceq", "anseq", "nseq", "exteq", "probe")


def klass(e):
    if e["wire"] != "dec":
        return e["wire"]
    if e["qr"]:
        return "response"
    bad = ("opcode" if e["op"] == "OTHER" else "") + ("counts" if e["qd"] != 1 or e["an"] > 1 or e["ns"] > 1 else "")
    return "reject-" + bad if bad else "accepted-" + e["h"]


def run(c: Check):
    th = c.thorough
    r = c.tlc_mc("Dispatch", "Dispatch_mc.cfg", coverage=th,
                 name="9 transports x (wire x QR x opcode x 27 section counts x 5 handler outcomes), 3 inputs per listener")
    c.cov["exhaustive"] = True
    for cfg, inv, what in [
        ("Dispatch_sanity_qr.cfg", "RejectTreatment", "a message with QR=1 is handed to the handler and answered"),
        ("Dispatch_sanity_opcode.cfg", "RejectTreatment", "an unsupported opcode is dropped instead of NOTIMP"),
        ("Dispatch_sanity_silent.cfg", "TransportEquivalence", "a handler error leaves the client without the documented SERVFAIL"),
        ("Dispatch_sanity_double.cfg", "AtMostOneResponse", "DoQ writes SERVFAIL after the handler's answer"),
        ("Dispatch_sanity_kill.cfg", "ListenerStaysUp", "a handler error ends the UDP read loop"),
        ("Dispatch_sanity_json.cfg", "EchoIDAndQuestion", "the JSON API echoes a normalised question"),
        ("Dispatch_sanity_dcpanic.cfg", "ListenerStaysUp", "a handler panic is not recovered on DNSCrypt"),
    ]:
        c.tlc_mc("Dispatch", cfg, expect_violation=inv, name="sanity: " + what)

    # ---- (i) in-package lanes: arbitrary bytes and structured mutations into every per-request entry point
    env = {"VERIF_PER_CLASS": 50 if th else 2, "VERIF_RANDOM": 20000 if th else 400}
    out, _ = c.go_harness("internal/dnsserver", "^TestVerifC01Pkg$", files=["c01_test.go"], env=env, timeout=1500)
    pkg = read_ndjson(out)
    # ---- (ii) the real servers over loopback sockets, one deterministic handler
    env = {"VERIF_PER_CLASS": 6 if th else 1, "VERIF_RANDOM": 150 if th else 6, "VERIF_EQ": 200 if th else 12}
    try:
        out, _ = c.go_harness("internal/dnsserver", "^TestVerifC01Sock$", files=["c01_test.go", "c01sock_test.go", "vlab_test.go"],
                              env=env, timeout=1500)
    except Undecided as e:
        # The servers' own last words: a panic in a listener's loop is logged by handlePanicAndExit
        # ("panic encountered, exiting") right before it ends the whole process -- which is the process
        # of this harness.  That is the code's behaviour (a wire input took every listener down), not a
        # failure of the driver.
        o = getattr(e, "output", "")
        lf = getattr(e, "partial", "") + ".serverlog"
        if os.path.exists(lf):
            o += "\n" + open(lf, errors="replace").read()[-200000:]
        i = o.find("panic encountered, exiting")
        if i < 0:
            raise
        done = read_ndjson(e.partial) if os.path.exists(getattr(e, "partial", "")) else []
        last = done[-1] if done else {}
        c.violation({"kind": "process-exit", "proto": re.sub(r".*\((\w+)://.*", r"\1", o[max(0, i - 80):i].splitlines()[-1])},
                    "C01 a listener's loop panicked and ended the whole process (handlePanicAndExit) while the socket-level "
                    "inputs were being sent; last completed input: %s over %s; the server said: %s" % (
                        last.get("gen"), last.get("t"), o[max(0, i - 120):i + 1500]),
                    {"server_output": o[max(0, i - 200):i + 6000], "last_completed_event": last})
        return
    sock = read_ndjson(out)

    for e in sock:
        if str(e.get("kind", "")).startswith("lab:"):
            raise Undecided("laboratory failure on %s (%s): %s %s" % (e["t"], e["gen"], e["kind"], e["note"]))

    # lines with the same abstract content get the same verdict: validate one representative of each
    groups, order, eqs = {}, [], []
    for e in pkg + sock:
        if e["ev"] in ("Eq", "Reuse"):
            eqs.append(e)
            continue
        k = (e["src"],) + tuple(e[f] for f in ABSTRACT)
        if k not in groups:
            groups[k] = []
            order.append(k)
        groups[k].append(e)
    lines = [dict(groups[k][0], items=[], more=[]) for k in order] + eqs
    path = os.path.join(c.scratch, "c01.ndjson")
    write_ndjson(path, lines)
    r = c.tlc_trace("TraceDispatch", "TraceDispatch.cfg", path, timeout=900)
    if r.tuples("STUCK"):
        raise Undecided("trace spec stuck: %s\n%s" % (r.tuples("STUCK"), r.out[-2000:]))
    if not r.ok and not r.tuples("NONCONF"):
        raise Undecided("trace validation did not complete:\n%s" % r.out[-3000:])
    bad = {int(t[0]) - 1: t[1] for t in r.tuples("NONCONF")}

    # ---- vacuity: every class on every lane / transport, all nine variants in every equivalence line
    seen = {"pkg": {}, "sock": {}}
    total = 0
    for k in order:
        for e in groups[k]:
            seen[e["src"]].setdefault(e["t"], set()).add(klass(e))
            total += e["cnt"]
            c.count_case((e["src"], e["t"], klass(e), e["gen"], e["hex"][:64]), nontrivial=klass(e) != "accepted-writes" or e["gen"] != "class")
            c.cov["evaluations"] += e["cnt"] - 1
    need_wire = {"short", "undec", "response", "reject-opcode", "reject-counts", "reject-opcodecounts", "accepted-writes",
                 "accepted-nothing", "accepted-error", "accepted-neterror", "accepted-panic"}
    for src in ("pkg", "sock"):
        for t in TRANSPORTS + (["base"] if src == "pkg" else []):
            need = set(need_wire)
            if t == "doh-json":
                need -= {"short", "response", "reject-opcode", "reject-counts", "reject-opcodecounts"}
            if src == "pkg" and t.startswith("dnscrypt"):
                need -= {"short", "undec"}          # the in-package lane starts behind the DNSCrypt library
            if src == "sock":
                need -= {"reject-opcodecounts"}
            miss = need - seen[src].get(t, set())
            if miss:
                raise Undecided("vacuous: %s lane %s never saw classes %s" % (src, t, sorted(miss)))
    if len([e for e in eqs if e["ev"] == "Eq"]) < (150 if th else 10):
        raise Undecided("only %d equivalence queries" % len(eqs))
    for e in eqs:
        c.count_case(("eq", e["hex"] or e["key"]))
    c.cov["traces_validated_against_impl"] += total + len(eqs) - sum(
        (sum(x["cnt"] for x in groups[order[i]]) if i < len(order) else 1) for i in bad)
    c.cov["rule"] = ("a case is one input on one transport (in-package lane or socket) or one query sent over all nine transport "
                     "variants; non-trivial = anything but a plain accepted query of the class sweep; distinct by (source, "
                     "transport, class, generator, first 32 input octets); lines with identical abstract content are validated "
                     "once by TLC and counted with their multiplicity")
    c.sample([{f: groups[k][0][f] for f in ABSTRACT + ("src", "gen", "hex")} for k in order[:2]] +
             [{"key": e["key"], "hex": e["hex"], "items": e["items"][:3]} for e in eqs[:1]])

    reported = {}
    for i in sorted(bad):
        reasons = bad[i]
        if i >= len(order):
            e = eqs[i - len(order)]
            if e["ev"] == "Reuse":
                c.violation({"kind": "long-lived-connection", "transport": e["t"]},
                            "C01 %s: only %d got their own answer: %s" % (e["key"], e["n"], reasons), e)
                continue
            c.violation({"kind": "transport-difference", "h": e["h"]},
                        "C01 query %s (wire %s) over all transports: %s; replies: %s" % (
                            e["key"], e["hex"][:200], reasons, json.dumps(e["items"])[:900]), e)
            continue
        g = groups[order[i]]
        e = g[0]
        n = sum(x["cnt"] for x in g)
        sig = {"kind": "nonconf", "transport": e["t"], "class": klass(e), "observed": e["kind"],
               "rcode": e["rcode"], "reason": reasons[:50]}
        if e["kind"] == "escaped" or (e["h"] == "panic" and e["probe"] == "fail"):
            sig = {"kind": "panic-escapes", "transport": e["t"].split("-")[0]}
        rk = (e["src"], json.dumps(sig, sort_keys=True))
        reported[rk] = reported.get(rk, 0) + 1
        if reported[rk] > 2:        # the same failure signature again: two concrete witnesses per source are enough
            continue
        c.violation(sig, "C01 [%s] %s input %s (generator %s, %d such inputs) class %s: observed %s n=%d rcode=%s idok=%s qok=%s "
                         "called=%d probe=%s note=%s -- %s %s" % (
                             e["src"], e["t"], e["hex"][:160], e["gen"], n, klass(e), e["kind"], e["n"], e["rcode"], e["idok"],
                             e["qok"], e["called"], e["probe"], e["note"][:160], reasons, e["detail"][:200]), e)
    for (src, sg), n in reported.items():
        if n > 2:
            c.notes.append("%d further abstract lines with signature %s (%s)" % (n - 2, sg, src))
    c.assumptions += [
        "dns.Msg.Unpack / Pack of miekg/dns are trusted (the classifier and the reply parser use them)",
        "in-package lanes replace the sockets by recording fakes (net.PacketConn, net.Conn, quic.Stream / quic.Connection, "
        "dnscrypt.ResponseWriter, httptest recorder); the DNSCrypt lane starts behind the DNSCrypt library",
        "socket level: a missing reply is a time-out of 4 x 25 ms, repeated once patiently (4 x 250 ms) where a reply or a "
        "closed stream is due; a second reply later than 25 ms after the first is seen by the in-package lanes only",
        "replies are compared modulo TC / answer truncation, OPT content, padding and keep-alive (C08)",
        "a handler panic over DNSCrypt is exercised in a child process",
        "TLC, SANY, CommunityModules Json"]


if __name__ == "__main__":
    main("C01", run)
