"""C19  The linked-IP proxy forwards only its API and only with the real client address."""
import json
from vlib import Check, read_ndjson, write_ndjson, main, Undecided
import os


def run(c: Check):
    th = c.thorough
    c.tlc_mc("LinkedIP", "LinkedIP_mc.cfg", name="6 methods x all paths <= 5 segments over 7-letter alphabet")
    c.cov["exhaustive"] = True
    c.tlc_mc("LinkedIP", "LinkedIP_sanity.cfg", expect_violation="ImplWithinContract",
             name="sanity: shouldProxy without dot-segment rejection leaves the contract")
    out, _ = c.go_harness("internal/websvc", "^TestVerifC19$", env={"VERIF_N": 3000})
    ev = read_ndjson(out)
    if len(ev) < 100:
        raise Undecided("only %d requests recorded" % len(ev))
    path = os.path.join(c.scratch, "c19.ndjson")
    write_ndjson(path, ev)
    r = c.tlc_trace("TraceLinkedIP", "TraceLinkedIP.cfg", path)
    if r.tuples("STUCK"):
        raise Undecided("trace spec stuck: %s" % r.tuples("STUCK"))
    bad = r.tuples("NONCONF")
    c.cov["traces_validated_against_impl"] += len(ev) - len(bad)
    n_proxy = 0
    for e in ev:
        n_proxy += 1 if e["contacted"] else 0
        c.count_case((e["method"], e["segs"], sorted(e["hdrs"])),
                     nontrivial=len(e["segs"]) > 0 and e["segs"][0] in ("linkip", "ddns"))
    if n_proxy < 10:
        raise Undecided("vacuous: only %d requests were proxied" % n_proxy)
    c.cov["rule"] = ("one raw HTTP/1.1 request per case (method x path segments over {linkip, ddns, status, id, '', '.', "
                     "'..'} with encoded variants x forged header subset); non-trivial = path starts with an API "
                     "prefix; distinct by (method, decoded segments, header set)")
    c.sample([e for e in ev if e["contacted"]][:2] + [e for e in ev if not e["contacted"]][:2])
    for t in bad:
        e = ev[int(t[0]) - 1]
        reasons = t[1]
        dotted = any(s in (".", "..") for s in e["segs"])
        c.violation({"kind": "nonconf", "dot_segments": dotted, "contacted": e["contacted"],
                     "reason": reasons[:60]},
                    "C19 %s %s from %s -> status %s contacted=%s backend=%s xconn=%s fwd=%s: %s" % (
                        e["method"], e["rawpath"], e["peer"], e["status"], e["contacted"], e["braw"], e["xconn"],
                        e["fwd"], reasons), e)
    c.assumptions += ["net/url request-target parsing (the server-side view of the path) is trusted",
                      "the backend is an httptest server recording what it receives",
                      "TLC, SANY, CommunityModules Json"]


if __name__ == "__main__":
    main("C19", run)
