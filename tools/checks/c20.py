"""C20  A configuration that passes validation cannot make request handling fail."""
import os
import re
from vlib import Check, read_ndjson, write_ndjson, main, Undecided


def parse_reasons(raw):
    """{<<"forbidden", "ratelimit/ipv4/count">>, <<"unsafe", "">>} -> [(kind, detail)]"""
    return re.findall(r'<<\s*"([^"]*)"\s*,\s*"([^"]*)"\s*>>', raw)


def mut_str(e):
    if e.get("section"):
        return "section " + e["section"].replace("=", " ")
    return ", ".join("%s=%s(%s)" % (m["f"], m["c"], m["v"] if m["c"] != "missing" else "line removed")
                     for m in e["mut"]) or "unchanged example"


def replay_events(c, path):
    """Re-run the configurations of a replay file (focus mode of the harness)."""
    import json
    d = json.load(open(path))
    rep = d.get("replay", d)
    rep = rep if isinstance(rep, list) else [rep]
    ev = []
    for e in rep[:6]:
        focus = ",".join("%s=%s" % (m["f"], m["c"]) + ("" if m["c"] == "missing" else ":" + m["v"])
                         for m in e["mut"])
        if not focus:
            continue
        out, _ = c.go_harness("internal/cmd", "^TestVerifC20$", files=["c20_test.go"], env={"VERIF_C20_FOCUS": focus, "VERIF_N": 1})
        got = read_ndjson(out)
        if not ev:
            ev.append(got[0])          # the baseline
        ev += got[1:]
    for i, e in enumerate(ev):
        e["id"] = i + 1
    return ev


def run(c: Check):
    th = c.thorough
    replay = getattr(c, "replay_path", None)
    r = c.tlc_mc("Config", "Config_mc.cfg",
                 name="68 fields x value classes: all single and pairwise mutations of the example")
    c.cov["exhaustive"] = True
    if th:
        c.tlc_mc("Config", "Config_mc_big.cfg", timeout=1500,
                 name="all pairs plus a third mutation from the cross-constrained fields")
    c.tlc_mc("Config", "Config_sanity.cfg", expect_violation="AcceptedImpliesSafe",
             name="sanity: validatePositive ignoring integers (pinned tree) accepts unsafe values")
    c.tlc_mc("Config", "Config_sanity_prefix.cfg", expect_violation="AcceptedImpliesSafe",
             name="sanity: a positive-only check of subnet_key_len accepts lengths above the address family")
    c.tlc_mc("Config", "Config_sanity_ecs.cfg", expect_violation="AcceptedImpliesSafe",
             name="sanity: ecs_size 0 accepted with type ecs")

    if replay:
        ev = replay_events(c, replay)
        if len(ev) < 2:
            raise Undecided("nothing to replay in %s" % replay)
    else:
        env = {"VERIF_N": 6000 if th else 1500, "VERIF_REPS": 4 if th else 2}
        out, _ = c.go_harness("internal/cmd", "^TestVerifC20$", files=["c20_test.go"], env=env, timeout=1500 if th else 600)
        ev = read_ndjson(out)
        if len(ev) < 500:
            raise Undecided("only %d configurations recorded" % len(ev))
    base = ev[0]
    if base["mut"] or not base["accepted"] or base["unsafe"]:
        raise Undecided("the distributed example itself is not accepted and safe: %s" % base)
    for need in ("ratelimit", "service", "sockets", "filterstorage", "upstream"):
        if need not in base["ran"]:
            raise Undecided("exerciser %s did not run on the baseline" % need)
    path = os.path.join(c.scratch, "c20.ndjson")
    write_ndjson(path, ev)
    r = c.tlc_trace("TraceConfig", "TraceConfig.cfg", path, timeout=1500)
    if r.tuples("STUCK"):
        raise Undecided("trace spec stuck: %s" % r.tuples("STUCK"))
    if r.tuples("BADLINE"):
        raise Undecided("trace lines the model cannot interpret: %s" % r.tuples("BADLINE")[:5])
    if not r.ok and not r.tuples("NONCONF"):
        raise Undecided("trace validation failed:\n%s" % r.out[-3000:])
    bad = r.tuples("NONCONF")
    if os.environ.get("VERIF_C20_DUMP"):   # debugging aid: keep the recorded trace and TLC's output
        import shutil
        shutil.copy(path, os.environ["VERIF_C20_DUMP"] + ".ndjson")
        open(os.environ["VERIF_C20_DUMP"] + ".tlc", "w").write(r.out)
    c.cov["traces_validated_against_impl"] += len(ev) - len(bad)

    n_acc = n_rej = n_ex = 0
    classes_seen = set()
    for e in ev:
        n_acc += 1 if e["accepted"] else 0
        n_rej += 0 if e["accepted"] else 1
        n_ex += 1 if e["ran"] else 0
        for m in e["mut"]:
            classes_seen.add((m["f"], m["c"]))
        c.count_case([(m["f"], m["c"], m["v"]) for m in e["mut"]], nontrivial=len(e["mut"]) > 0)
    cells = r.tuples("CELLS")
    if replay:
        c.notes.append("replay of %s: %d configurations" % (replay, len(ev) - 1))
    elif not cells or int(cells[0][0]) != len(classes_seen):
        raise Undecided("vacuous: the model has %s (field, class) cells, the harness exercised %d" % (
            cells[0][0] if cells else "?", len(classes_seen)))
    if not replay and (n_acc < 50 or n_rej < 50 or n_ex < 50):
        raise Undecided("vacuous: accepted=%d rejected=%d exercised=%d" % (n_acc, n_rej, n_ex))
    c.notes.append("configurations=%d accepted=%d rejected=%d exercised=%d field/class cells=%d" % (
        len(ev), n_acc, n_rej, n_ex, len(classes_seen)))
    strict = r.tuples("STRICT")
    if strict:
        ex = [mut_str(ev[int(t[0]) - 1]) for t in strict[:5]]
        c.notes.append("%d configurations rejected although the documentation allows them (not a violation), e.g. %s"
                       % (len(strict), ex))
    missed = r.tuples("MISSED")
    if missed:
        ex = [mut_str(ev[int(t[0]) - 1]) for t in missed[:5]]
        c.notes.append("%d accepted configurations the model calls unsafe showed no failure in the exercise, e.g. %s"
                       % (len(missed), ex))
    c.cov["rule"] = ("one rendered YAML file per case (config.dist.yaml with 0-3 fields moved to another value class, "
                     "seeded concretisations); parsed, validated and -- when accepted -- exercised; non-trivial = at "
                     "least one mutated field; distinct by (field, class, concrete value) set")
    c.sample([ev[0]] + [e for e in ev if e["accepted"] and e["mut"]][:2] + [e for e in ev if not e["accepted"]][:2])

    # One violation per (kind, field) for single-field configurations, listing
    # the failing classes with their concrete values; multi-field configurations
    # that only repeat a failing single (same kind, field and class) are folded.
    per_field = {}      # (kind, field) -> {class: (event, text)}
    single_bad = set()  # (kind, field, class)
    multi = []
    for t in bad:
        e = ev[int(t[0]) - 1]
        reasons = parse_reasons(t[1])
        kinds = {k for k, _ in reasons}
        if "unsafe" in kinds:
            kind = "accepted_unsafe"
        elif "forbidden" in kinds:
            kind = "accepted_forbidden"
        elif "crash" in kinds:
            kind = "crash"
        else:
            kind = "rejected_unnamed"
        constraints = sorted(d for k, d in reasons if k == "forbidden")
        if len(e["mut"]) == 1:
            m = e["mut"][0]
            single_bad.add((kind, m["f"], m["c"]))
            if kind == "accepted_unsafe":
                single_bad.add(("accepted_forbidden", m["f"], m["c"]))
            per_field.setdefault((kind, m["f"]), {}).setdefault(m["c"], (e, constraints))
        else:
            multi.append((kind, e, constraints))
    for (kind, f), cls in sorted(per_field.items()):
        parts = []
        for cl in sorted(cls):
            e, constraints = cls[cl]
            m = e["mut"][0]
            val = "line removed" if cl == "missing" else m["v"]
            if kind == "accepted_unsafe":
                parts.append("%s (%s) -> %s" % (cl, val, e["unsafe"][0][:160]))
            elif kind == "accepted_forbidden":
                parts.append("%s (%s)" % (cl, val))
            else:
                parts.append("%s (%s) -> %s: %s" % (cl, val, e["stage"], e["err"][:120]))
        head = {"accepted_unsafe": "validation accepts values of %s with which request handling fails: ",
                "accepted_forbidden": "validation accepts values of %s that the documentation forbids (no failure "
                                      "observed in the exercise): ",
                "crash": "validation crashes for %s: ",
                "rejected_unnamed": "rejection does not name the offending property %s: "}[kind] % f
        c.violation({"kind": kind, "field": f, "classes": ",".join(sorted(cls))},
                    "C20 " + head + "; ".join(parts), [cls[cl][0] for cl in sorted(cls)])
    folded = 0
    reported = [frozenset([k]) for k in single_bad]      # sets of (kind, field, class)
    multi.sort(key=lambda x: (len(x[1]["mut"]), x[1]["id"]))
    for kind, e, constraints in multi:
        keys = frozenset((kind, m["f"], m["c"]) for m in e["mut"])
        if any(rep < keys or rep == keys for rep in reported):
            folded += 1
            continue
        reported.append(keys)
        fields = ",".join(sorted("%s=%s" % (m["f"], m["c"]) for m in e["mut"]))
        if kind == "accepted_unsafe":
            reported.append(frozenset(("accepted_forbidden", m["f"], m["c"]) for m in e["mut"]))
            desc = "accepted configuration fails: %s -> %s" % (mut_str(e), "; ".join(e["unsafe"])[:300])
        elif kind == "accepted_forbidden":
            desc = "validation accepts a combination the documentation forbids (%s): %s" % (
                ",".join(constraints), mut_str(e))
        elif kind == "crash":
            desc = "validation crashed: %s -> %s" % (mut_str(e), e["err"][:300])
        else:
            desc = "rejected without naming an offending property: %s -> %s: %s" % (
                mut_str(e), e["stage"], e["err"][:300])
        c.violation({"kind": kind, "fields": fields}, "C20 " + desc, e)
    if folded:
        c.notes.append("%d multi-field configurations only repeat a reported single-field failure" % folded)
    c.assumptions += ["the value classes and their concretisations (harness c20Concrete) are representative; 'huge' is "
                      "bounded where the code allocates memory proportional to the value",
                      "fakes stand in for the backend, GeoIP, filters and upstreams behind the exercised handlers",
                      "gopkg.in/yaml.v2 type errors identify a property by its line number",
                      "TLC, SANY, CommunityModules Json"]


if __name__ == "__main__":
    main("C20", run)
