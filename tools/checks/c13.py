"""C13  A failed or interrupted filter update never weakens or corrupts filtering."""
import json
import os
import random
import re
import subprocess
import time

from vlib import Check, Undecided, read_ndjson, write_ndjson, main, SEED

LISTS = ["ridx", "rl1", "rl2", "sidx", "ss", "hp"]
FAULTS = ["ok", "refused", "timeout", "status", "empty", "oversize", "trunc", "cancel", "inv", "invown"]
PKG = "internal/filter/filterstorage"
FILES = ["c13_test.go", "c13crash_test.go"]

# what the endpoint (or the client's error) must have recorded for a fault to count as produced for real
REAL_PREFIX = {"ok": "full", "inv": "full", "invown": "full", "refused": "refused", "timeout": "timeout:gone",
               "status": "status:", "empty": "empty", "oversize": "oversize:", "trunc": "trunc:", "cancel": "cancel:gone"}

SANITY = [  # cfg, defect, invariant that must be reported
    ("FilterRefresh_sanity.cfg", "swap before validating", "FaultyKeepsPrevious"),
    ("FilterRefresh_sanity_inplace.cfg", "cache file rewritten in place", "DiskAlwaysComplete"),
    ("FilterRefresh_sanity_svc.cfg", "stored service index with an invalid entry rejected as a whole", "RestartUsable"),
    ("FilterRefresh_sanity_empty.cfg", "empty body accepted", "FaultyKeepsPrevious"),
    ("FilterRefresh_sanity_len.cfg", "short transfer accepted", "OthersPreviousOrNew"),
    ("FilterRefresh_sanity_abort.cfg", "failing rule list aborts the round", "ValidIndexEntriesApplied"),
    ("FilterRefresh_sanity_dropped.cfg", "failing rule list dropped", "FaultyKeepsPrevious"),
    ("FilterRefresh_sanity_svc2.cfg", "valid service entries not applied", "ValidIndexEntriesApplied"),
    ("FilterRefresh_sanity_victim.cfg", "list with an invalid own index entry dropped", "FaultyKeepsPrevious"),
]


def faults_of(l):
    return FAULTS if l == "ridx" else FAULTS[:9] if l == "sidx" else FAULTS[:8]


def behaviours_from_tlc(behs, rng):
    """hist of FilterRefresh.tla -> steps for the harness.  A list the model
    never reached in a round (its fault was never chosen) gets a random fault:
    the code must not reach it either, whatever its server would do."""
    res = []
    for b in behs:
        init = b[0]
        absent = {"": [], "all": ["rl1", "rl2"]}.get(init["l"], [init["l"]])
        steps = []
        for s in b[1:]:
            if s["a"] == "Round":
                steps.append({"a": "Round", "faults": {}, "up": True})
            elif s["a"] == "Fetch":
                steps[-1]["faults"][s["l"]] = s["f"]
            elif s["a"] in ("Crash", "Restart"):
                steps.append({"a": s["a"], "faults": {}, "up": bool(s["up"])})
        for st in steps:
            if st["a"] == "Round":
                for l in LISTS:
                    if l not in st["faults"]:
                        st["faults"][l] = rng.choice(faults_of(l))
        # a behaviour that ends inside a round is still a full round for the code
        if steps:
            res.append({"absent": absent, "steps": steps})
    return res


def trace_cfg(c, name, defects):
    """A copy of TraceFilterRefresh.cfg with the given defect flags."""
    src = open(os.path.join(c.specdir, "TraceFilterRefresh.cfg")).read()
    dst = src.replace("Defects = {}", "Defects = {%s}" % ", ".join('"%s"' % d for d in defects))
    with open(os.path.join(c.specdir, name), "w") as f:
        f.write(dst)
    return name


def segments(events):
    segs, cur = [], []
    for e in events:
        if e["ev"] == "Reset" and cur:
            segs.append(cur)
            cur = []
        cur.append(e)
    if cur:
        segs.append(cur)
    return segs


def validate(c, events, cfg="TraceFilterRefresh.cfg", count=True):
    """One TLC run over the concatenated segments.  Returns (nonconf, stuck):
    nonconf = {(segment number, index in segment): [failed clauses, model served, model disk]},
    stuck = [(segment number, index in segment)].  A segment at which the trace
    spec gets stuck is removed and the rest is validated again."""
    segs = list(enumerate(segments(events)))
    nonconf, stuck = {}, []
    total = len(segs)
    while segs:
        flat, where = [], []
        for sn, sg in segs:
            for i, e in enumerate(sg):
                flat.append(e)
                where.append((sn, i))
        path = os.path.join(c.scratch, "trace_in.ndjson")
        write_ndjson(path, flat)
        r = c.tlc_trace("TraceFilterRefresh", cfg, path, timeout=1500)
        if not count:
            c.cov["tlc_runs"].pop()
        if r.violated:
            raise Undecided("trace run reported %s:\n%s" % (r.violated, r.out[-3000:]))
        for t in r.tuples("NONCONF"):
            ln = int(t[0]) - 1
            nonconf[where[ln]] = [re.findall(r'"(\w+)"', t[1]), t[2], t[3]]
        if r.ok:
            break
        st = r.tuples("STUCK")
        if not st:
            raise Undecided("trace rejected without STUCK:\n%s" % r.out[-3000:])
        bad = int(st[-1][0]) - 1
        if bad < 0 or bad >= len(flat):
            raise Undecided("bad stuck index %d of %d" % (bad, len(flat)))
        sn, i = where[bad]
        stuck.append((sn, i))
        segs = [x for x in segs if x[0] != sn]
        if len(stuck) > 8:
            break
    if count:
        failed = set(sn for sn, _ in nonconf) | set(sn for sn, _ in stuck)
        c.cov["traces_validated_against_impl"] += total - len(failed)
    return nonconf, stuck


DEFECT_SETS = (["svc_strict"], ["victim_dropped"], ["svc_strict", "victim_dropped"])


def explain(c, events, nonconf):
    """For every non-conforming event: the smallest set of known deviations of
    the pinned tree (defect flags of the model) under which the model does
    explain the observation."""
    res = {}
    runs = {}
    for ds in DEFECT_SETS:
        cfg = trace_cfg(c, "TraceFilterRefresh_%s.cfg" % "_".join(ds), ds)
        runs["+".join(ds)], _ = validate(c, events, cfg, count=False)
    for key in nonconf:
        res[key] = "none"
        for ds in DEFECT_SETS:
            nc = runs["+".join(ds)].get(key)
            if nc is None or "MatchesModel" not in nc[0]:
                res[key] = "+".join(ds)
                break
    return res


def strip_disturbed(events, c):
    """Cut a behaviour at the first round in which a download that was meant to
    succeed did not (machine noise, e.g. a time-out on a loaded machine), or a
    fault was not produced as scripted.  Returns the kept events."""
    kept, skip, disturbed = [], False, 0
    for e in events:
        if e["ev"] == "Reset":
            skip = False
        if skip:
            continue
        if e["ev"] == "Round":
            bad = [(l, e["faults"][l], r) for l, r in e["real"].items()
                   if r != "unreached" and not r.startswith(REAL_PREFIX[e["faults"][l]])]
            if bad:
                disturbed += 1
                c.notes.append("round dropped, fault not produced as scripted: %s" % (bad,))
                skip = True
                continue
        kept.append(e)
    return kept, disturbed


def run(c: Check):
    th = c.thorough
    rng = random.Random(SEED)
    # 1. design check
    c.tlc_mc("FilterRefresh", "FilterRefresh_mc.cfg", coverage=th,
             name="index + 2 rule lists + service index, 10 faults, 2 rounds, crash anywhere + restart")
    c.tlc_mc("FilterRefresh", "FilterRefresh_mc_all.cfg", name="all 6 lists, 10 faults, 1 round, crash anywhere + restart")
    for cfg, what, inv in (SANITY if th else SANITY[:3]):
        c.tlc_mc("FilterRefresh", cfg, expect_violation=inv, name="sanity: " + what, count=False)
    if th:
        c.tlc_mc("FilterRefresh", "FilterRefresh_mc_big.cfg", timeout=2400,
                 name="all 6 lists, 10 faults, 2 rounds, crash anywhere + restart")
    # 2. behaviours from the spec
    behs = c.tlc_sim("FilterRefresh", "FilterRefresh_sim.cfg", num=250 if th else 25, depth=70)
    steps = behaviours_from_tlc(behs, rng)
    uniq = {}
    for b in steps:
        if any(st["a"] == "Round" for st in b["steps"]):
            uniq.setdefault(json.dumps(b, sort_keys=True), b)
    steps = sorted(uniq.values(), key=lambda b: json.dumps(b, sort_keys=True))
    rng.shuffle(steps)
    steps = steps[:600 if th else 40]
    if len(steps) < 20:
        raise Undecided("only %d behaviours from the simulation" % len(steps))
    inp = os.path.join(c.scratch, "c13_behs.json")
    json.dump(steps, open(inp, "w"))
    # 3. the real code, 4. trace validation
    out, _ = c.go_harness(PKG, "^TestVerifC13Stepper$", files=FILES,
                          env={"VERIF_IN": inp, "VERIF_NRANDOM": 350 if th else 20}, timeout=1500)
    ev = read_ndjson(out)
    ev, disturbed = strip_disturbed(ev, c)
    rounds = [e for e in ev if e["ev"] == "Round"]
    if disturbed * 10 > max(1, len(rounds)):
        raise Undecided("%d of %d rounds disturbed (faults not produced as scripted)" % (disturbed, len(rounds)))
    produced = {}
    for e in rounds:
        for l, r in e["real"].items():
            if r != "unreached":
                produced.setdefault(e["faults"][l], set()).add(l)
    missing = [f for f in FAULTS if f not in produced]
    if missing:
        raise Undecided("fault kinds never produced for real: %s (vacuous)" % missing)
    nonconf, stuck = validate(c, ev)
    why = explain(c, ev, nonconf) if nonconf else {}
    seg = []
    for e in ev + [{"ev": "Reset"}]:
        if e["ev"] == "Reset":
            if seg:
                c.count_case(seg, nontrivial=any(x[0] == "Round" and any(f != "ok" for f in x[1]) for x in seg))
            seg = []
        elif e["ev"] == "Round":
            c.cov["evaluations"] += 1
            seg.append(("Round", [e["faults"][l] for l in LISTS]))
        elif e["ev"] in ("Crash", "Restart"):
            seg.append((e["ev"], e.get("up", True)))
    c.cov["evaluations"] -= len(c.distinct)
    c.cov["rule"] = ("a case is one sequence of refresh rounds (a fault per list and round, produced for real by scripted "
                     "HTTP endpoints), process drops and restarts (network up/down) on a real filterstorage.Default + "
                     "hashprefix.Filter; after every round the served versions are read through filtering queries and "
                     "the cache files are compared byte by byte; non-trivial = at least one faulty download; distinct "
                     "by the sequence of fault vectors; the kill points of the crash part are counted separately")
    c.sample({"faults_produced_for_real": {f: sorted(ls) for f, ls in sorted(produced.items())},
              "rounds": len(rounds), "disturbed_rounds_dropped": disturbed})
    if rounds:
        e = rounds[len(rounds) // 2]
        c.sample({"round": {k: e[k] for k in ("faults", "real", "remote", "ms")}})
    segs = segments(ev)
    seen = {}
    for (sn, i), (clauses, ms, md) in sorted(nonconf.items()):
        report(c, segs[sn], i, clauses, why.get((sn, i), "none"), ms, md, seen)
    for sn, i in stuck:
        report(c, segs[sn], i, ["stuck"], "none", "", "", seen)
    for k, n in sorted(seen.items()):
        if n > 2:
            c.notes.append("%d more failing events with signature %s (first two reported)" % (n - 2, k))
    crash_points(c, th)
    overlapping(c, th)
    c.assumptions += [
        "every version of every list blocks two probe hosts of its own (first and last line of its text); the served "
        "version is what filtering queries through ForConfig(...).FilterRequest reveal",
        "the hash-prefix filter is refreshed right after the storage in every round (it has its own refresher in "
        "production; it shares no state with the storage)",
        "a list whose own index entry is invalid (valid key, unusable URL) is expected to keep its previous content, "
        "like a list whose download failed",
        "crashes inside a round are produced by SIGKILL of a child process at system-call entries (strace); the "
        "in-process replay drops the storage between rounds only",
        "TLC, SANY, CommunityModules Json, strace",
    ]


def report(c, sg, idx, clauses, known, ms, md, seen):
    e = sg[idx]
    rnd = next((x for x in reversed(sg[:idx + 1]) if x["ev"] == "Round"), None)
    hist = [(x["ev"], x.get("faults") or x.get("up")) for x in sg[1:idx + 1] if x["ev"] in ("Round", "Crash", "Restart")]
    prop = [x for x in clauses if x != "MatchesModel"]
    if sg[0].get("fresh"):
        # (nor "valid index entries applied", which counts the service index: it is not downloaded there)
        prop = [x for x in prop if x != "ValidIndexEntriesApplied"]
        clauses = prop or clauses
    if not prop and sg[0].get("fresh"):
        # worlds in which the service index and the safe-search list stay fresh (not downloaded again):
        # the model describes rounds that download everything, so only the property clauses are judged
        # there, not the agreement with the model
        return
    sig = {"kind": prop[0] if prop else clauses[0], "explained_by": known, "ev": e["ev"]}
    key = json.dumps(sig, sort_keys=True)
    seen[key] = seen.get(key, 0) + 1
    if seen[key] > 2:
        return
    c.violation(sig,
                "C13 %s: %s not satisfied by event %d (%s) of behaviour %s; steps so far %s; last round: faults=%s "
                "produced=%s variants=%s; observed served=%s disk=%s applied=%s ok=%s odd=%s/%s; model expected "
                "served=%s disk=%s; deviation of the pinned tree that explains the observation: %s"
                % ("model mismatch" if not prop else "property clause", "+".join(clauses), idx, e["ev"], e.get("beh"),
                   json.dumps(hist[-4:]), json.dumps(rnd and rnd["faults"]), json.dumps(rnd and rnd["real"]),
                   json.dumps(rnd and rnd["variants"]), json.dumps(e.get("served")), json.dumps(e.get("disk")),
                   e.get("applied"), e.get("ok", True), e.get("odd_served"), e.get("odd_disk"), ms, md, known),
                {"segment": sg[:idx + 1], "offending_index": idx, "clauses": clauses, "explained_by": known})


def overlapping(c, th):
    """Two refreshes of one refreshable in flight at once (AtomicFile2.tla)."""
    c.tlc_mc("AtomicFile2", "AtomicFile2_mc.cfg", name="two concurrent replacements of one file, private temporary names")
    c.tlc_mc("AtomicFile2", "AtomicFile2_sanity.cfg", expect_violation="DiskAlwaysComplete", count=False,
             name="sanity: one fixed temporary name per target")
    out, _ = c.go_harness("internal/filter/internal/refreshable", "^TestVerifC13Overlap$", files=["c13overlap_test.go"],
                          env={"VERIF_ROUNDS": 12 if th else 4}, timeout=600)
    ev = read_ndjson(out)
    if len(ev) < 4:
        raise Undecided("overlap harness recorded %d rounds" % len(ev))
    path = os.path.join(c.scratch, "c13ov.ndjson")
    write_ndjson(path, ev)
    r = c.tlc_trace("TraceAtomicFile2", "TraceAtomicFile2.cfg", path, timeout=300)
    if r.tuples("STUCK"):
        raise Undecided("overlap trace spec stuck")
    c.cov["traces_validated_against_impl"] += len(ev) - len(r.tuples("NONCONF"))
    for e in ev:
        c.count_case(("overlap", e["round"], e["chunk"], e["after_b"], e["final"]), nontrivial=True)
    for t in r.tuples("NONCONF"):
        e = ev[int(t[0]) - 1]
        c.violation({"kind": "overlap", "after_b": e["after_b"], "final": e["final"]},
                    "C13 cache file of a list with two of its refreshes overlapping (download halves of %d bytes): %s; on disk after "
                    "the second refresh completed: %s, after both ended: %s (errors: first %r, second %r)" % (
                        e["chunk"], t[1], e["after_b"], e["final"], e["err_a"], e["err_b"]), e)


def crash_points(c, th):
    """SIGKILL at the entry of file-related system calls of a refreshing child
    process (tools/killpoints.py), then the verifier: cache file byte-complete
    (old or new), every other cache file complete, and a restarted storage with
    the target's server unreachable filters with the file."""
    import killpoints
    c.tlc_mc("AtomicFile", "AtomicFile_mc.cfg", name="atomic replace, kill anywhere")
    c.tlc_mc("AtomicFile", "AtomicFile_sanity.cfg", expect_violation="DiskAlwaysComplete",
             name="sanity: in-place rewrite is not atomic", count=False)
    binp = c.go_test_binary(PKG, files=FILES)
    root = os.path.join(c.scratch, "crash")
    os.makedirs(root, exist_ok=True)
    addrfile = os.path.join(c.scratch, "c13srv.addr")
    srv = subprocess.Popen([binp, "-test.run", "^TestVerifC13CrashServer$", "-test.count=1", "-test.timeout=0"],
                           env=c.goenv({"VERIF_C13_SRV_ADDR_FILE": addrfile}), cwd=root,
                           stdout=subprocess.DEVNULL, stderr=subprocess.DEVNULL)
    try:
        for _ in range(200):
            if os.path.exists(addrfile):
                break
            time.sleep(0.05)
        else:
            raise Undecided("the crash-point HTTP server did not start")
        base = open(addrfile).read().strip()
        paths = {"rl1": "rl1", "hp": "hashprefix/safe_browsing", "ridx": "filters.json", "sidx": "services.json",
                 "ss": "general_safe_search", "rl2": "rl2"}
        # quick: the rule-list file and the hash-prefix file, the window around the replacement;
        # thorough: every cache file, every kill point, also with the file initially absent
        plan = [("rl1", False, 34), ("hp", False, 22)] if not th else \
            [("rl1", False, 4000), ("rl1", True, 4000), ("hp", False, 4000), ("hp", True, 4000), ("ridx", False, 4000),
             ("sidx", False, 4000), ("ss", False, 4000), ("rl2", False, 4000)]
        allev, total, verdicts, vacuous = [], 0, [], []
        for n, (tgt, absent, max_n) in enumerate(plan):
            d = os.path.join(root, "%s-%d" % (tgt, n))
            target = os.path.join(d, paths[tgt])
            os.makedirs(os.path.dirname(target), exist_ok=True)
            env = c.goenv({"VERIF_C13_DIR": d, "VERIF_C13_SRV": base, "VERIF_C13_TARGET": tgt})

            def verify():
                out = os.path.join(c.scratch, "verify.ndjson")
                e = dict(env)
                e["VERIF_OUT"] = out
                if os.path.exists(out):
                    os.remove(out)
                p = subprocess.run([binp, "-test.run", "^TestVerifC13CrashVerify$", "-test.count=1"], env=e, cwd=d,
                                   stdout=subprocess.PIPE, stderr=subprocess.STDOUT, text=True, timeout=120)
                if p.returncode != 0 or not os.path.exists(out):
                    verdicts.append({"state": "corrupt", "why": "verifier failed: " + p.stdout[-400:]})
                    return "corrupt"
                v = read_ndjson(out)[0]
                verdicts.append(v)
                return {"ver1": "old", "ver2": "new"}.get(v["state"], v["state"])

            ev, kills = killpoints.enumerate_kills(
                c, binp, "^TestVerifC13CrashChild$", verify, target, env,
                ({"VERIF_CRASH_VERSION": "1"}, {"VERIF_CRASH_VERSION": "2"}), absent=absent, max_n=max_n)
            for e in ev:
                e["target"] = tgt
            allev += ev
            total += kills
            at_rename = [e for e in ev if e["ev"] == "Kill" and e["at"].startswith("rename")
                         and os.path.basename(target) + '"' in e["last"]]
            if not at_rename:
                vacuous.append("no kill at the rename that replaces %s (kill points %s)" % (
                    tgt, [e["at"] for e in ev if e["ev"] == "Kill"]))
        if total < 20:
            raise Undecided("only %d kill points reached" % total)
        fails = c.validate_segments("TraceAtomicFile", "TraceAtomicFile.cfg", allev,
                                    is_reset=lambda e: e["ev"] == "Begin", max_fail=8)
        if vacuous and not fails:
            raise Undecided("; ".join(vacuous))
        for e in allev:
            if e["ev"] == "Kill":
                c.count_case(("kill", e["target"], e["n"], e["absent"], e["last"][:60]), nontrivial=True)
        c.sample({"crash_points": total,
                  "targets": sorted(set(e["target"] for e in allev)),
                  "syscalls_of_one_replace": [e["raw"][:100] for e in allev if e["ev"] == "Sys"][:10],
                  "kills": [{k: e[k] for k in ("target", "n", "state", "at", "last")} for e in allev if e["ev"] == "Kill"][-5:]})
        for sg, idx, reason in fails:
            e = sg[idx]
            why = [v for v in verdicts if v.get("state") == "corrupt"][:2]
            c.violation({"kind": "cache-file", "ev": e["ev"], "state": e.get("state", ""), "target": e.get("target", "")},
                        "C13 cache file of %s not atomically replaced: %s at %s; verifier: %s" % (
                            e.get("target"), reason, json.dumps(e)[:400], json.dumps(why)[:600]),
                        {"segment": sg, "offending_index": idx, "verdicts": why})
    finally:
        srv.kill()
        srv.wait()


if __name__ == "__main__":
    main("C13", run)
