"""C12  Filter result caches are invisible and never survive a list refresh."""
import json
import os
from vlib import Check, read_ndjson, write_ndjson, main, Undecided


def run(c: Check):
    th = c.thorough
    c.tlc_mc("FilterCache", "FilterCache_mc.cfg", name="2 requesters x 3 requests, 2 refreshes, read/write lock, re-shaping on hit")
    c.tlc_mc("FilterCache", "FilterCache_sanity_lock.cfg", expect_violation="NoStaleAfterRefresh",
             name="sanity: no common lock between match+store and swap+clear")
    c.tlc_mc("FilterCache", "FilterCache_sanity_shape.cfg", expect_violation="TransparentShape",
             name="sanity: the first requester's shaped answer handed to the next")
    out, _ = c.go_harness("internal/filter/filterstorage", "^TestVerifC12Twin$", files=["c12_test.go"],
                          env={"VERIF_NHIST": 40 if th else 6, "VERIF_NSTEPS": 200 if th else 120}, timeout=2400)
    ev = read_ndjson(out)
    out2, _ = c.go_harness("internal/filter/hashprefix", "^TestVerifC12Gate$", files=["c12_test.go"],
                           env={"VERIF_ROUNDS": 30 if th else 6}, timeout=1200)
    ev2 = read_ndjson(out2)
    out3, _ = c.go_harness("internal/filter/internal/rulelist", "^TestVerifC12GateRL$", files=["c12_test.go"],
                           env={"VERIF_ROUNDS": 12 if th else 3}, timeout=1200)
    ev2 += read_ndjson(out3)
    for e in ev:
        if e["ev"] == "Refresh" and e["errs"]:
            raise Undecided("a scripted refresh failed: %s" % e["errs"])
    allev = ev + ev2
    path = os.path.join(c.scratch, "c12.ndjson")
    write_ndjson(path, [{"ev": e["ev"], "cached": e.get("cached", ""), "plain": e.get("plain", ""), "cachedr": e.get("cachedr", ""),
                         "plainr": e.get("plainr", "")} for e in allev])
    r = c.tlc_trace("TraceFilterCache", "TraceFilterCache.cfg", path)
    if r.tuples("STUCK"):
        raise Undecided("trace spec stuck")
    bad = r.tuples("NONCONF")
    qs = [e for e in ev if e["ev"] == "Query"]
    c.cov["traces_validated_against_impl"] += len([e for e in ev if e["ev"] == "Reset"]) + len(ev2)
    kinds = set(e["plain"].split("|")[0] for e in qs)
    if not {"none", "blocked", "allowed", "modresp", "modreq"} <= kinds or len(ev2) < 3:
        raise Undecided("vacuous: result kinds %s, %d gate rounds" % (sorted(kinds), len(ev2)))
    for e in qs:
        c.count_case((e["beh"], json.dumps(e["q"], sort_keys=True), e["plain"][:60]), nontrivial=e["plain"] != "none")
    for e in ev2:
        c.count_case(("gate", e["what"], e["q"]["host"]), nontrivial=True)
    c.cov["rule"] = ("a case is one filter query (profile, host, qtype, flags) inside a history of queries from 4 profiles "
                     "interleaved with refreshes of 6 lists and custom-rule updates, answered by a cache-enabled storage and "
                     "by a cache-less twin; or one gated request-vs-refresh interleaving; non-trivial = the verdict is not "
                     "'none'")
    c.sample(qs[:2] + ev2[:1])
    for t in bad:
        e = allev[int(t[0]) - 1]
        kind = e["plain"].split("|")[0] if e["ev"] == "Query" else "gate"
        lst = e["plain"].split("|")[1] if e["ev"] == "Query" and "|" in e["plain"] else ""
        c.violation({"kind": e["ev"], "result": kind, "list": lst},
                    "C12 %s %s: %s; cached=%s | plain=%s | cached-resp=%s | plain-resp=%s" % (
                        e["ev"], json.dumps(e["q"]), t[1], e.get("cached", "")[:400], e.get("plain", "")[:400],
                        e.get("cachedr", "")[:200], e.get("plainr", "")[:200]), e)
    c.assumptions += ["the twin has rule-list/service result caches disabled and every managed cache (safe search, hash "
                      "prefix, custom) cleared before each query", "rule lists carry no client-specific modifiers",
                      "TLC, SANY, CommunityModules Json"]


if __name__ == "__main__":
    main("C12", run)
