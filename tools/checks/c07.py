"""C07  Concurrent clients never see each other's answers, policies or identities."""
import json
import os
from vlib import Check, read_ndjson, main, Undecided


def run(c: Check):
    th = c.thorough
    c.tlc_mc("MsgPool", "MsgPool_mc.cfg", name="4 objects, 3 messages, all New/Clone/Dispose sequences")
    c.tlc_mc("MsgPool", "MsgPool_sanity_share.cfg", expect_violation="NoAlias", name="sanity: a clone keeps one object of its source")
    c.tlc_mc("MsgPool", "MsgPool_sanity_twice.cfg", expect_violation="NoDoublePut", name="sanity: a message disposed twice")
    out, _ = c.go_harness("internal/dnsmsg", "^TestVerifC07Cloner$", files=["c07_test.go"],
                          env={"VERIF_NHIST": 3000 if th else 250})
    ev = read_ndjson(out)
    fails = c.validate_segments("TraceMsgPool", "TraceMsgPool.cfg", ev, timeout=1800)
    for sg, idx, reason in fails:
        e = sg[idx]
        hist = [(x["ev"], x["m"], x.get("src", "")) for x in sg[1:idx + 1]]
        c.violation({"kind": "cloner", "ev": e["ev"], "damaged": bool(e["damaged"])},
                    "C07 cloner history rejected (%s) at %s m=%s src=%s damaged=%s; history %s" % (
                        reason, e["ev"], e["m"], e.get("src"), e["damaged"], hist[-16:]),
                    {"segment": [{k: x[k] for k in ("ev", "m", "src", "damaged", "equal")} for x in sg[:idx + 1]], "last": e})
    for e in ev:
        if e["ev"] != "Reset":
            c.count_case((e["beh"], e["ev"], e["m"], e.get("src", "")), nontrivial=e["ev"] in ("Clone", "Dispose"))
    # the same ownership rule one level up: responses of the ECS cache kept in use and released in random order
    outl, _ = c.go_harness("internal/ecscache", "^TestVerifC07EcsLive$", files=["c07live_test.go"],
                           env={"VERIF_NBEH": 200 if th else 20, "VERIF_NSTEPS": 80 if th else 60})
    evl = read_ndjson(outl)
    whats = set(e["what"].rsplit(" ", 1)[0] for e in evl if e["ev"] == "New")
    if not {"declined v4", "declined v6", "subnet v4", "OPT only", "no option"} <= whats or sum(1 for e in evl if e["ev"] == "Dispose") < 50:
        raise Undecided("ECS-cache ownership leg vacuous: request kinds %s" % sorted(whats))
    for sg, idx, reason in c.validate_segments("TraceMsgPool", "TraceMsgPool.cfg", evl, timeout=1800):
        e = sg[idx]
        hist = [(x["ev"], x["m"], x.get("what", "")) for x in sg[1:idx + 1]]
        c.violation({"kind": "ecscache-ownership", "ev": e["ev"], "damaged": bool(e["damaged"])},
                    "C07 responses of the ECS cache in use at the same time (%s) at %s m=%s (%s) damaged=%s: two messages in use "
                    "own the same object, or a message in use changed; history %s" % (
                        reason, e["ev"], e["m"], e.get("what"), e["damaged"], hist[-10:]),
                    {"segment": [{k: x.get(k) for k in ("ev", "m", "what", "objs", "damaged")} for x in sg[:idx + 1]], "last": e})
    for e in evl:
        if e["ev"] != "Reset":
            c.count_case(("ecslive", e["beh"], e["ev"], e["m"], e.get("what", "")), nontrivial=True)
    try:
        out2, o2 = c.go_harness("internal/dnssvc", "^TestVerifC07Stack$", files=["c07_test.go"], race=True,
                                env={"VERIF_PER": 400 if th else 120, "VERIF_ROUNDS": 4 if th else 2}, timeout=2400)
        # the same with the plain cache of the default configuration instead of the ECS-aware one
        out2b, _ = c.go_harness("internal/dnssvc", "^TestVerifC07Stack$", files=["c07_test.go"], race=True,
                                env={"VERIF_PER": 300 if th else 100, "VERIF_ROUNDS": 3 if th else 2, "VERIF_CACHE": "simple"},
                                timeout=2400)
    except Undecided as e:
        msg = str(e)
        i = msg.find("WARNING: DATA RACE")
        if i < 0:
            raise
        block = msg[i:i + 8000]
        # the two conflicting accesses: walking each stack from the innermost frame, the first frame that
        # lies in the tree under test decides whose access it is -- the repository's, or the harness's
        # (zz_verif_* files are overlaid into the same directories).  Only a race between two accesses
        # of the repository is the code's; anything else is a fault of the harness (exit 2).
        repo_root = os.environ.get("VERIF_REPO", "/repo").rstrip("/") + "/"
        accs = block.split("Previous ")
        owners, tops = [], []
        for a in accs[:2]:
            a = a.split("Goroutine ")[0]
            frames = [l.strip() for l in a.splitlines() if l.strip().startswith("/")]
            tops.append(frames[:3])
            own = "none"
            for f in frames:
                if f.startswith(repo_root):
                    own = "harness" if "zz_verif_" in f else "repo"
                    break
            owners.append(own)
        if owners != ["repo", "repo"]:
            raise
        c.violation({"kind": "data-race", "where": (tops[0][0] if tops and tops[0] else "").split(" ")[0].replace(
            os.environ.get("VERIF_REPO", "/repo"), "")},
                    "C07 data race between concurrent requests (race detector):\n" + block[:2500], {"report": block})
        return
    ev2 = read_ndjson(out2) + read_ndjson(out2b)
    fails2 = c.validate_segments("TraceMsgPool", "TraceMsgPool.cfg", ev2, is_reset=lambda e: True, max_fail=8, timeout=1800)
    for sg, idx, reason in fails2:
        e = sg[idx]
        c.violation({"kind": "concurrent-response", "idok": e["idok"], "qok": e["qok"]},
                    "C07 concurrent response differs from the sequential one or has another requester's shape: client %s profile %s %s %s/%d idok=%s qok=%s shapeok=%s conc=%s | seq=%s" % (
                        e["client"], e["prof"], e["net"], e["name"], e["qtype"], e["idok"], e["qok"], e.get("shapeok"), e["conc"][:400], e["seq"][:400]), e)
    # ---- the filter layer: concurrent profiles on one real storage with shared, cached rule lists
    try:
        out3, _ = c.go_harness("internal/filter/filterstorage", "^TestVerifC07Filters$", files=["c07flt_test.go", "c12_test.go"], race=True,
                               env={"VERIF_ROUNDS": 8 if th else 3, "VERIF_PER": 600 if th else 300}, timeout=2400)
    except Undecided as e:
        msg = str(e)
        i = msg.find("WARNING: DATA RACE")
        if i < 0:
            raise
        block = msg[i:i + 8000]
        repo_root = os.environ.get("VERIF_REPO", "/repo").rstrip("/") + "/"
        owners, tops = [], []
        for a in block.split("Previous ")[:2]:
            a = a.split("Goroutine ")[0]
            frames = [l.strip() for l in a.splitlines() if l.strip().startswith("/")]
            tops.append(frames[:3])
            own = "none"
            for f in frames:
                if f.startswith(repo_root):
                    own = "harness" if "zz_verif_" in f else "repo"
                    break
            owners.append(own)
        if owners != ["repo", "repo"]:
            raise
        c.violation({"kind": "data-race", "layer": "filter", "where": (tops[0][0] if tops and tops[0] else "").split(" ")[0].replace(
            os.environ.get("VERIF_REPO", "/repo"), "")},
                    "C07 data race between concurrent filtering requests of different profiles (race detector):\n" + block[:2500],
                    {"report": block})
        return
    ev3 = read_ndjson(out3)
    fails3 = c.validate_segments("TraceMsgPool", "TraceMsgPool.cfg", ev3, is_reset=lambda e: True, max_fail=8, timeout=1800)
    for sg, idx, reason in fails3:
        e = sg[idx]
        c.violation({"kind": "concurrent-verdict", "prof": e["prof"]},
                    "C07 filtering verdict obtained concurrently differs from the one obtained alone: profile %s %s/%d: conc=%s | "
                    "alone=%s" % (e["prof"], e["host"], e["qtype"], e["conc"][:300], e["seq"][:300]), e)
    if len(ev3) < 1000 or len(set(e["seq"].split("|")[0] for e in ev3)) < 4:
        raise Undecided("vacuous: %d concurrent verdicts" % len(ev3))
    for e in ev3:
        c.count_case(("flt", e["prof"], e["host"], e["qtype"], e["round"]), nontrivial=not e["seq"].startswith("none"))
    nb = sum(1 for e in ev2 if e["name"].startswith("blocked") and e["prof"] != "anonymous")
    if len(ev2) < 500 or nb < 50:
        raise Undecided("vacuous: %d concurrent responses, %d blocked for profiles" % (len(ev2), nb))
    for e in ev2:
        c.count_case((e["client"], e["net"], e["name"], e["qtype"], e["conc"][:80]), nontrivial=e["prof"] != "anonymous")
    c.cov["rule"] = ("cases: (a) one Clone/Rewrite/Dispose step in a random history on the production Cloner with real object "
                     "addresses (non-trivial = Clone or Dispose); (b) one response of a concurrent run of 8 clients (4 profiles "
                     "with different blocking modes / TTLs) through the full handler stack behind a real UDP/TCP server with "
                     "the production cloner as disposer, compared with the same request processed alone")
    c.sample(ev[1:4] + ev2[:2])
    c.assumptions += ["object identity = addresses of the message, its records and their pooled sub-objects and buffers "
                      "(zero-size values excluded)", "the Go race detector for data races in the concurrent run",
                      "upstream TTLs are ignored in the concurrent/sequential comparison (they count down in the cache); "
                      "blocked answers keep their TTL", "TLC, SANY, CommunityModules Json"]


if __name__ == "__main__":
    main("C07", run)
