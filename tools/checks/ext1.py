"""EXT1  (extension, not a listed property) special-domain decisions and pipeline stages."""
import json
import os
from vlib import Check, read_ndjson, write_ndjson, main, Undecided


def run(c: Check):
    th = c.thorough
    c.tlc_mc("Initial", "Initial_mc.cfg", name="all 66 560 abstract requests")
    c.cov["exhaustive"] = True
    out, _ = c.go_harness("internal/dnssvc", "^TestVerifEXT1$", files=["ext1_test.go"], env={"VERIF_PER": 4 if th else 1}, timeout=1800)
    ev = read_ndjson(out)
    path = os.path.join(c.scratch, "ext1.ndjson")
    write_ndjson(path, ev)
    r = c.tlc_trace("TraceInitial", "TraceInitial.cfg", path, timeout=1800)
    if r.tuples("STUCK"):
        raise Undecided("trace spec stuck\n" + r.out[-2000:])
    bad = r.tuples("NONCONF")
    c.cov["traces_validated_against_impl"] += len(ev) - len(bad)
    for e in ev:
        c.count_case(json.dumps(e["v"], sort_keys=True), nontrivial=e["v"]["host"] != "normal")
    c.cov["rule"] = "one request per abstract vector through the real NewHandlers stack; non-trivial = not an ordinary name"
    c.sample(ev[:3])
    for t in bad:
        e = ev[int(t[0]) - 1]
        c.violation({"kind": "ext1", "host": e["v"]["host"], "reason": t[1][:60]},
                    "EXT1 %s via %s vector %s -> rcode=%s ans=%s eff=%s ad=%s err=%s: %s" % (
                        e["name"], e["via"], json.dumps(e["v"]), e["rcode"], e["ans"], e["eff"], e["ad"], e["err"], t[1]), e)


if __name__ == "__main__":
    main("EXT1", run)
