"""EXT10  (extension, not a listed property) the identifier and schedule decision functions return what their
documentation promises, on every row of two decision tables enumerated by TLC.

Specifications: specs/HumanID.tla (internal/agd: NewHumanID, NewHumanIDLower, HumanIDToLower,
HumanIDParser.ParseNormalized, NewDeviceID, NewProfileID, NewDeviceName over an alphabet of character classes, short
strings and the boundary lengths) and specs/Schedule.tla (internal/filter: DayInterval.Validate,
ConfigSchedule.Contains over zones x week patterns x local days x boundary minutes, the days the clocks change
included).  TLC enumerates the tables (invariants: the clauses of the contract on an implementation-shaped rule, with a
defect flag and a sanity configuration per clause) and writes the rows; the harnesses evaluate the real functions on
every row plus a seeded random leg; TraceHumanID / TraceSchedule re-derive the contract's answer for every recorded
line and check the algebraic laws (idempotence, determinism, shared vs fresh parser, instant-only)."""
import json
import os
from concurrent.futures import ThreadPoolExecutor
from vlib import Check, read_ndjson, write_ndjson, main, Undecided, log, VERIF

POOL = ThreadPoolExecutor(max_workers=3)
JOBS = []
W = 2  # TLC workers per background run (the machine is shared)


def design(c, module, cfg, **kw):
    kw.setdefault("workers", W)
    kw["count"] = False
    JOBS.append((POOL.submit(c.tlc_mc, module, cfg, **kw), "expect_violation" not in kw))


def collect(c):
    for j, counted in JOBS:
        r = j.result()
        if counted:
            c.cov["states"] += r.distinct
            c.cov["transitions"] += r.generated


SCHEDULE_SANITY = [
    ("elapsed", "WholeDay", "start and end counted as elapsed minutes from the local midnight: the last hour of a 25-hour day "
                            "is outside a whole-day interval (the pinned tree, see the finding)"),
    ("elapsed2", "BeforeStart", "elapsed minutes: after the clocks went forward an interval begins an hour late"),
    ("impl", "ImplMatchesContract", "elapsed minutes: the rule differs from the contract"),
    ("utcweekday", "NilNever", "the week day is taken from the instant in UTC"),
    ("nozone", "Inside", "the time zone is not applied"),
    ("closedend", "EndExclusive", "the end is inclusive"),
    ("openstart", "StartInclusive", "the start is exclusive"),
    ("zerowhole", "ZeroNever", "the empty interval means the whole day"),
    ("nilwhole", "NilNever", "a day without interval means the whole day"),
    ("laxend", "EndRange", "Validate accepts an end after midnight of the next day"),
    ("strictorder", "Accepts", "Validate rejects start = end"),
]

HUMANID_SANITY = []  # filled below


def queue_design(c, th):
    if th:
        design(c, "Schedule", "Schedule_mc_big.cfg", timeout=3000, name="9 zones x 14 weeks x 20 local days x 15 minutes x 2 seconds")
        for cfg, name in HUMANID_BIG:
            design(c, "HumanID", cfg, timeout=3000, name=name)
    design(c, "Schedule", "Schedule_mc.cfg", timeout=1200,
           name="7 zones x 8 weeks x 9 local days x 9 minutes x 2 seconds (every offset of the zone), Validate on 7 x 7 bounds")
    for cfg, name in HUMANID_MC:
        design(c, "HumanID", cfg, timeout=1200, name=name)
    for cfg, inv, what in SCHEDULE_SANITY:
        design(c, "Schedule", "Schedule_sanity_%s.cfg" % cfg, expect_violation=inv, workers=1, name="sanity: " + what)
    for cfg, inv, what in HUMANID_SANITY:
        design(c, "HumanID", "HumanID_sanity_%s.cfg" % cfg, expect_violation=inv, workers=1, name="sanity: " + what)


def dump_rows(c, module, cfg, fname):
    """rows of the table as TLC wrote them (ndJsonSerialize in the Init of DumpSpec)"""
    p = os.path.join(c.specdir, fname)
    if os.path.exists(p):
        os.remove(p)
    c.tlc_mc(module, cfg, workers=1, count=False, timeout=1800, name="rows of the table written for the harness")
    if not os.path.exists(p):
        raise Undecided("TLC %s/%s wrote no %s" % (module, cfg, fname))
    rows = read_ndjson(p)
    if not rows:
        raise Undecided("TLC %s/%s wrote an empty table" % (module, cfg))
    return rows


def trace(c, module, cfg, ev, name, own_file=False):
    """per-line validation -> {0-based line: [failed clauses]}; MODEL / STUCK / unread lines are no verdict.
    own_file: the run reads its own copy of the lines (several slices are validated at the same time)"""
    path = os.path.join(c.scratch, "ext10_%s.ndjson" % name)
    write_ndjson(path, ev)
    tracefile = "trace.ndjson"
    if own_file:
        tracefile = "trace_%s.ndjson" % name
        text = open(os.path.join(c.specdir, cfg)).read()
        if 'TraceFile = "trace.ndjson"' not in text:
            raise Undecided("%s has no TraceFile constant" % cfg)
        cfg = cfg.replace(".cfg", "_%s.cfg" % name)
        open(os.path.join(c.specdir, cfg), "w").write(text.replace('TraceFile = "trace.ndjson"', 'TraceFile = "%s"' % tracefile))
    r = c.tlc_trace(module, cfg, path, timeout=3000, heap="6g", tracefile=tracefile)
    if r.ok and r.distinct != len(ev) + 1:
        raise Undecided("trace spec %s read %d lines of %s, %d were recorded" % (module, r.distinct - 1, name, len(ev)))
    if r.tuples("MODEL"):
        raise Undecided("trace spec %s: the model does not cover a recorded line of %s: %s" % (module, name, r.tuples("MODEL")[:3]))
    if r.tuples("STUCK") or (not r.ok and not r.tuples("NONCONF")):
        raise Undecided("trace spec %s did not consume the trace of %s:\n%s" % (module, name, r.out[-3000:]))
    if not r.ok:
        raise Undecided("trace spec %s ended with an error:\n%s" % (module, r.out[-3000:]))
    bad = {}
    for t in r.tuples("NONCONF"):
        bad[int(t[0]) - 1] = sorted(x.strip().strip('"') for x in t[1].strip("{} ").split(","))
    c.cov["traces_validated_against_impl"] += len(ev) - len(bad)
    c.cov["evaluations"] += len(ev)
    return bad


def limit(c, per, sig, cap=3):
    k = json.dumps(sig, sort_keys=True)
    per[k] = per.get(k, 0) + 1
    if per[k] == cap + 1:
        c.notes.append("more failing rows with signature %s not listed" % k)
    return per[k] <= cap


PENDING_FILE = os.path.join(VERIF, "pending_fixes", "EXT10-known-findings.json")


def reporter(c):
    pending = []
    if os.environ.get("VERIF_EXT10_PENDING") and os.path.exists(PENDING_FILE):
        pending = json.load(open(PENDING_FILE))["findings"]
    shown = set()

    def viol(sig, desc, replay):
        pk = next((k for k in pending if all(sig.get(a) == b for a, b in k["match"].items())), None)
        if pk is not None:
            if pk["id"] not in shown:
                log("PENDING-FINDING: property=EXT10 %s (%s)" % (pk["what"][:200], pk["id"]))
                shown.add(pk["id"])
                c.notes.append("pending finding %s seen: %s" % (pk["id"], desc[:400]))
            return
        c.violation(sig, desc, replay)
    return viol


# ------------------------------------------------------------------ (b) the schedule
def day_class(e):
    """how the row lies relative to the days the clocks change in its zone (part of the signature)"""
    tr = {"Europe/Berlin": (91, 301), "America/New_York": (70, 308), "Australia/Lord_Howe": (98, 280)}.get(e["zone"])
    if not tr:
        return "fixed-offset zone"
    d = (e["t"] + e["off"]) // 86400
    if d == tr[0] or d == tr[1]:
        return "day the clocks change"
    return "ordinary day of a zone with DST"


def run_schedule(c, th, viol):
    rows = dump_rows(c, "Schedule", "Schedule_dump_big.cfg" if th else "Schedule_dump.cfg", "schedule_rows.ndjson")
    inp = os.path.join(c.scratch, "ext10_schedule_rows.json")
    json.dump(rows, open(inp, "w"))
    out, _ = c.go_harness("internal/filter", "^TestVerifEXT10Schedule$", files=["ext10_test.go"],
                          env={"VERIF_IN": inp, "VERIF_NRANDOM": 20000 if th else 1500})
    ev = read_ndjson(out)
    table = [e for e in ev if e["src"] == "table" and not e.get("rep")]
    if len(table) != len(rows):
        raise Undecided("schedule harness evaluated %d of %d rows" % (len(table), len(rows)))
    want = set((r["k"], r["zone"], r["t"], json.dumps(r["ivs"]), r["isnil"], r["s"], r["e"]) for r in rows)
    got = set((e["ev"], e.get("zone", ""), e.get("t", 0), json.dumps(e.get("ivs", [])), e.get("isnil", False), e.get("s", 0),
               e.get("e", 0)) for e in table)
    if want != got:
        raise Undecided("the harness did not echo the rows TLC enumerated (%d differ)" % len(want ^ got))
    bad = trace(c, "TraceSchedule", "TraceSchedule.cfg", ev, "schedule")
    # vacuity: every class the contract distinguishes was exercised, with both outcomes
    cs = [e for e in ev if e["ev"] == "C"]
    vs = [e for e in ev if e["ev"] == "V"]
    stats = {
        "contained": sum(1 for e in cs if e["ok"]), "not contained": sum(1 for e in cs if not e["ok"]),
        "rows on a day the clocks change": sum(1 for e in cs if day_class(e) == "day the clocks change"),
        "local week day differs from UTC's": sum(1 for e in cs if (e["t"] + e["off"]) // 86400 != e["t"] // 86400),
        "across the week boundary": sum(1 for e in cs if ((e["t"] + e["off"]) // 86400) % 7 in (0, 6)
                                        and (e["t"] // 86400) % 7 in (0, 6) and (e["t"] + e["off"]) // 86400 != e["t"] // 86400),
        "exactly at a start": sum(1 for e in cs if at_bound(e, 0)), "exactly at an end": sum(1 for e in cs if at_bound(e, 1)),
        "nil day": sum(1 for e in cs if local_iv(e)[0] < 0), "zero interval": sum(1 for e in cs if local_iv(e) == [0, 0]),
        "end 1440": sum(1 for e in cs if local_iv(e)[1] == 1440),
        "random rows": sum(1 for e in cs if e["src"] == "random"), "repeated lines": sum(1 for e in cs if e["rep"]),
        "valid intervals": sum(1 for e in vs if e["ok"]), "invalid intervals": sum(1 for e in vs if not e["ok"]),
        "nil interval validated": sum(1 for e in vs if e["isnil"]),
    }
    if not bad:
        low = [k for k, v in stats.items() if v < (1 if k == "nil interval validated" else 5)]
        if low:
            raise Undecided("vacuous schedule run: %s" % {k: stats[k] for k in low})
    c.ext10_stats["schedule"] = stats
    for e in ev:
        if e["ev"] == "C":
            c.count_case(("C", e["zone"], e["ivs"], e["t"]), nontrivial=e["ok"] or local_iv(e)[0] >= 0)
        else:
            c.count_case(("V", e["isnil"], e["s"], e["e"]))
    c.cov["evaluations"] -= len(ev)  # counted once, by trace()
    c.sample({"schedule": [("Contains", e["zone"], e["week"], e["local"], e["ok"]) for e in cs[:3]]
              + [("Validate", e["isnil"], e["s"], e["e"], e["ok"]) for e in vs[:3]]})
    per = {}
    for i, reasons in sorted(bad.items()):
        e = ev[i]
        if e["ev"] == "C":
            iv = local_iv(e)
            rule = "elapsed minutes from the local midnight" if "=ElapsedRule" in reasons else "other"
            reasons = [x for x in reasons if x != "=ElapsedRule"]
            sig = {"kind": "schedule-contains", "day": day_class(e), "rule": rule, "clauses": ",".join(reasons)}
            if not limit(c, per, sig):
                continue
            viol(sig, "EXT10 schedule: Contains(%s) in zone %s (week %s, interval of the local day %s) returned %s "
                      "(other location %s, rebuilt schedule %s, repeated %s): clauses %s (the answer is the one of the rule: %s); "
                      "the local time is %s" % (
                          e["t"], e["zone"], e["ivs"], "nil" if iv[0] < 0 else "%02d:%02d-%02d:%02d" % (
                              iv[0] // 60, iv[0] % 60, iv[1] // 60, iv[1] % 60),
                          e["ok"], e["okloc"], e["oknew"], e["again"], reasons, rule, e["local"]),
                 {"line": e, "reasons": reasons, "epoch": "t = seconds since 2023-12-31T00:00:00Z"})
        else:
            sig = {"kind": "schedule-validate", "clauses": ",".join(reasons)}
            if not limit(c, per, sig):
                continue
            viol(sig, "EXT10 schedule: Validate of %s returned %s (%r): clauses %s" % (
                "nil" if e["isnil"] else "{Start: %d, End: %d}" % (e["s"], e["e"]), "nil" if e["ok"] else "an error", e["err"], reasons),
                 {"line": e, "reasons": reasons})


def local_iv(e):
    return e["ivs"][((e["t"] + e["off"]) // 86400) % 7]


def at_bound(e, k):
    iv = local_iv(e)
    return iv[0] >= 0 and iv[0] < iv[1] and (e["t"] + e["off"]) % 86400 == iv[k] * 60


# ------------------------------------------------------------------ (a) the identifiers
HUMANID_MC = [("HumanID_mc.cfg", "every string up to 5 characters over {a B 7 - _ e2}; 5 prefixes x 5 fills x 9 boundary lengths x 8 suffixes")]
HUMANID_BIG = [("HumanID_mc_big.cfg", "every string up to 6 characters over {a B 7 - _ e2 sp}; 8 prefixes x 7 fills x 18 lengths x 11 suffixes")]
HUMANID_SANITY += [
    ("triple", "HumanIDClauses", "three hyphens in a row are valid"),
    ("edge", "HumanIDClauses", "an id may end with a hyphen"),
    ("max64", "HumanIDClauses", "64 bytes are valid"),
    ("runelimit", "ParseClauses", "ParseNormalized limits the input in runes"),
    ("notrim", "ParseClauses", "hyphens left at the end by the cut are not trimmed (the id is refused instead of normalised)"),
    ("nocut", "ParseClauses", "the normalised string is not cut to 63 bytes"),
    ("invalidout", "ParseResultValid", "no trimming and no validation of the result: an invalid id is returned"),
    ("gap", "ParseClauses", "hyphens next to unsupported material stay"),
    ("lowercase", "LowerClauses", "NewHumanIDLower accepts upper-case letters"),
    ("namebytes", "DeviceNameClauses", "the device name is limited in bytes"),
    ("devid9", "DeviceIDClauses", "device ids of nine bytes"),
    ("profspace", "ProfileIDClauses", "white space in a profile id"),
    ("impl", "ImplMatchesContract", "no trimming: the rule differs from the contract"),
]

CLASSES = {"lower": {"a", "b", "z"}, "upper": {"A", "B", "Z"}, "digit": {"7", "0", "9"}, "hyphen": {"-"},
           "other ASCII": {"_", ".", "!", "~", "/", "@", "[", "`", "{", ":"}, "blank or control": {"sp", "nl", "del"}, "multi-byte": {"e2", "e3", "e4"}}
NBYTES = {"e2": 2, "e3": 3, "e4": 4}


def text(e):
    return e["text"]


def run_humanid(c, th, viol):
    rows = dump_rows(c, "HumanID", "HumanID_dump_big.cfg" if th else "HumanID_dump.cfg", "humanid_rows.ndjson")
    inp = os.path.join(c.scratch, "ext10_humanid_rows.json")
    json.dump(rows, open(inp, "w"))
    out, _ = c.go_harness("internal/agd", "^TestVerifEXT10HumanID$", files=["ext10_test.go"], race=True,
                          env={"VERIF_IN": inp, "VERIF_NRANDOM": 30000 if th else 2000})
    ev = read_ndjson(out)
    table = [e for e in ev if e["src"] == "table"]
    want = set(json.dumps(r["pre"] + [r["fill"]] * r["n"] + r["post"]) for r in rows)
    got = set(json.dumps(e["in"]) for e in table)
    if len(table) != len(rows) or want != got:
        raise Undecided("the agd harness did not echo the rows TLC enumerated (%d rows, %d lines, %d differ)" % (
            len(rows), len(table), len(want ^ got)))
    # the trace is validated in slices, concurrently (every line is judged on its own; chain lines follow their
    # predecessor, so the cuts are made before lines that are not chain lines)
    k = 4 if th else 3
    cuts, step = [0], (len(ev) + k - 1) // k
    for j in range(1, k):
        i = j * step
        while i < len(ev) and ev[i]["chain"]:
            i += 1
        cuts.append(i)
    cuts.append(len(ev))
    futs = [(j, POOL.submit(trace, c, "TraceHumanID", "TraceHumanID.cfg", ev[cuts[j]:cuts[j + 1]], "humanid%d" % j, True))
            for j in range(k) if cuts[j] < cuts[j + 1]]
    bad = {}
    for j, fu in futs:
        for i, rs in fu.result().items():
            bad[cuts[j] + i] = rs

    def nbytes(syms):
        return sum(NBYTES.get(x, 1) for x in syms)
    stats = {
        "valid ids": sum(1 for e in ev if e["h"]["ok"]), "invalid ids": sum(1 for e in ev if not e["h"]["ok"]),
        "normalised to something else": sum(1 for e in ev if e["p"]["ok"] and e["p"]["out"] != e["in"]),
        "cannot normalize": sum(1 for e in ev if not e["p"]["ok"]),
        "cut to 63": sum(1 for e in ev if e["p"]["ok"] and len(e["p"]["out"]) == 63 and nbytes(e["in"]) > 63),
        "trimmed after the cut": sum(1 for e in ev if e["p"]["ok"] and len(e["p"]["out"]) < 63 and len(e["in"]) > 64
                                     and e["in"][len(e["p"]["out"])] == "-" and e["in"][:len(e["p"]["out"])] == e["p"]["out"]),
        "exactly 63 / 64 bytes": sum(1 for e in ev if nbytes(e["in"]) in (63, 64)),
        "exactly 253 / 254 bytes": sum(1 for e in ev if nbytes(e["in"]) in (253, 254)),
        "253 runes or fewer but more bytes": sum(1 for e in ev if len(e["in"]) <= 253 < nbytes(e["in"])),
        "128 runes or fewer but more bytes": sum(1 for e in ev if len(e["in"]) <= 128 < nbytes(e["in"])),
        "129 runes": sum(1 for e in ev if len(e["in"]) == 129),
        "triple hyphen": sum(1 for e in ev if "---" in "".join(x if x == "-" else "x" for x in e["in"])),
        "upper case valid": sum(1 for e in ev if e["h"]["ok"] and not e["lo"]["ok"]),
        "device ids": sum(1 for e in ev if e["d"]), "8 / 9 bytes": sum(1 for e in ev if nbytes(e["in"]) in (8, 9)),
        "profile ids that are no device ids": sum(1 for e in ev if e["f"] and not e["d"]),
        "empty string": sum(1 for e in ev if not e["in"]),
        "chain lines": sum(1 for e in ev if e["chain"]), "random rows": sum(1 for e in ev if e["src"] == "random"),
    }
    for name, syms in CLASSES.items():
        stats["class " + name] = sum(1 for e in ev if syms & set(e["in"]))
    if not bad:
        low = [k2 for k2, v in stats.items() if v < (1 if k2 == "empty string" else 3)]
        if low:
            raise Undecided("vacuous identifier run: %s" % {k2: stats[k2] for k2 in low})
    c.ext10_stats["identifiers"] = stats
    for e in ev:
        c.count_case(("I", e["in"], e["chain"]))
    c.cov["evaluations"] -= len(ev)
    c.sample({"identifiers": [(e["text"], "NewHumanID ok" if e["h"]["ok"] else "NewHumanID err",
                               "ParseNormalized -> %s" % ("".join(e["p"]["out"]) if e["p"]["ok"] else "err"))
                              for e in ev if 2 < len(e["in"]) < 12][100:104]})
    per = {}
    for i, reasons in sorted(bad.items()):
        e = ev[i]
        fn = sorted(set(r.split(".")[0] for r in reasons))
        sig = {"kind": "identifier", "clauses": ",".join(reasons)}
        if not limit(c, per, sig):
            continue
        viol(sig, "EXT10 identifiers: input %s (%d bytes, %d runes%s): clauses %s; NewHumanID %s, NewHumanIDLower %s, "
                  "ParseNormalized %s (fresh parser %s, repeated %s, concurrent %s, of its own result %s), NewDeviceID %s, "
                  "NewProfileID %s, NewDeviceName %s; errors %s" % (
                      e["text"], nbytes(e["in"]), len(e["in"]), ", the previous line's normalised id" if e["chain"] else "",
                      reasons, res(e["h"]), res(e["lo"]), res(e["p"]), res(e["pfresh"]), res(e["pagain"]), res(e["pconc"]),
                      res(e["p2"]), e["d"], e["f"], e["n"], e.get("errs")),
             {"line": e, "reasons": reasons, "functions": fn})


def res(r):
    return repr("".join(r["out"])) if r["ok"] else "error"


def run(c: Check):
    th = c.thorough
    c.ext10_stats = {}
    viol = reporter(c)
    try:
        queue_design(c, th)
        run_schedule(c, th, viol)
        run_humanid(c, th, viol)
        collect(c)
    finally:
        POOL.shutdown(wait=True, cancel_futures=True)
    c.notes.append("classes exercised: %s" % json.dumps(c.ext10_stats, sort_keys=True))
    c.cov["exhaustive"] = True
    c.cov["rule"] = ("a case is one call of the real function on one row (Contains: zone, week, instant; Validate: interval; "
                     "identifiers: one string); distinct by the inputs; non-trivial = a day with an interval / any identifier "
                     "row; evaluations = lines validated by the trace specs")
    c.assumptions += [
        "the zones are the tz database's (system zoneinfo or Go's embedded copy) for 2024; the harness records the offset "
        "Go applies at every probed instant and a line whose offset differs from Schedule.tla's zone table is exit 2",
        "the contract of the interval bounds is the wall clock of the profile's zone (doc comments of DayInterval: Start "
        "'from 00:00:00 (0) to 23:59:59', End 'to 00:00:00 of the next day')",
        "TLC, SANY, CommunityModules Json / SequencesExt",
    ]


if __name__ == "__main__":
    main("EXT10", run)
