"""C17  Queries fail over to fallback upstreams and return when the main ones recover."""
import json
import os
from vlib import Check, read_ndjson, main, Undecided


def run(c: Check):
    th = c.thorough
    c.tlc_mc("Forward", "Forward_mc.cfg", timeout=1800,
             name="2 mains, 1 fallback, back-off 2 ticks, all health schedules; incl. liveness ReturnsAfterRecovery")
    c.tlc_mc("Forward", "Forward_mc_nofb.cfg", name="no fallbacks: never demoted")
    c.tlc_mc("Forward", "Forward_sanity_nobackoff.cfg", expect_violation="NoProbeInBackoff",
             name="sanity: probing inside the back-off")
    c.tlc_mc("Forward", "Forward_sanity_keepfailed.cfg", expect_violation="ActiveIffProbedOK",
             name="sanity: a failed probe keeps the upstream active")
    behs = c.tlc_sim("Forward", "Forward_sim.cfg", num=300 if th else 50, depth=70 if th else 50)
    inp = os.path.join(c.scratch, "c17_behs.json")
    keep = {"SetHealth", "Tick", "RefreshStart", "Query"}
    json.dump([[{"a": s["a"], "u": s["u"], "h": s["h"]} for s in b if s["a"] in keep] for b in behs], open(inp, "w"))
    ov = c.rewrite_clock(["internal/dnsserver/forward/healthcheck.go"])
    out, _ = c.go_harness("internal/dnsserver/forward", "^TestVerifC17$", rewrites=ov, files=["c17_test.go"],
                          env={"VERIF_IN": inp, "VERIF_NRANDOM": 3000 if th else 300})
    ev = read_ndjson(out)
    out2, _ = c.go_harness("internal/dnsserver/forward", "^TestVerifC17Exchange$", files=["c17b_test.go"], timeout=1800)
    ev_x = read_ndjson(out2)
    fails = c.validate_segments("TraceForward", "TraceForward.cfg", ev, timeout=1800)
    fails += c.validate_segments("TraceForward", "TraceForward.cfg", ev_x, is_reset=lambda e: True, max_fail=10, timeout=1800)
    for e in ev_x:
        c.count_case(("exchange", e["net"], e["udp"], e["tcp"], e.get("reuse"), e.get("oneshot"), e.get("late"), e.get("rep")),
                     nontrivial=e["udp"] != "valid")
    nq = nfb = nerr = nrec = 0
    for e in ev:
        if e["ev"] == "Query":
            nq += 1
            nfb += 1 if len(e["tried"]) == 2 else 0
            nerr += 1 if e["by"] == "error" else 0
            c.count_case((e["beh"], tuple(e["tried"]), e["by"], nq), nontrivial=len(e["tried"]) != 1 or e["by"] == "error")
    # (judged on what was scripted and observed only when nothing was rejected: a change that, say, never
    # uses a fallback is a verdict of the trace spec, not a vacuous run)
    if not fails and (nq < 200 or nfb < 20 or nerr < 10):
        raise Undecided("vacuous: %d queries, %d with fallback, %d errors" % (nq, nfb, nerr))
    c.cov["rule"] = ("a case is one query inside a schedule of health changes, clock ticks and refresh rounds (queries also "
                     "between two probes of one refresh) on the real forward.Handler with scripted upstreams; non-trivial = "
                     "a fallback was tried, nothing was active, or the client got an error")
    c.sample([e for e in ev if e["ev"] in ("Probe", "RefreshEnd", "Query")][:10])
    for sg, idx, reason in fails:
        e = sg[idx]
        recent = [{k: x.get(k) for k in ("ev", "u", "h", "ok", "active", "tried", "by") if x.get(k) not in ("", [], None, False) or k == "ev"}
                  for x in sg[max(1, idx - 14):idx + 1]]
        c.violation({"kind": "trace-rejected", "ev": e["ev"], "reason": reason.split()[0]},
                    "C17 %s at event %s (mains %s, fallbacks %s, back-off %s ticks, start-up probe %s); recent: %s" % (
                        reason, json.dumps({k: e.get(k) for k in ("ev", "u", "ok", "active", "tried", "by", "rcode", "net", "udp", "tcp", "got")}),
                        sg[0].get("main"), sg[0].get("fall"), sg[0].get("backoff"), sg[0].get("init"), json.dumps(recent)),
                    {"segment": sg[:idx + 1], "reason": reason})
    c.assumptions += ["upstreams are scripted at the forward.Upstream interface; reply validation of the plain upstream "
                      "client is exercised by C06's upstream paths",
                      "virtual clock by overlay rewrite of healthcheck.go (fails closed)",
                      "TLC, SANY, CommunityModules Json"]


if __name__ == "__main__":
    main("C17", run)
