"""C18  Stream connections and pipelined queries never exceed their configured limits."""
import json
import re
import os
from vlib import Undecided, Check, read_ndjson, main


def unbounded(c):
    """Apalache: the counter-level abstraction ConnCounter.tla for ALL thresholds and any number of connections."""
    c.apalache_inductive("ConnCounter", ("cur + 1 < Stop", "cur + 1 <= Stop"), cinit="ConstInit")


def run(c: Check):
    th = c.thorough
    c.tlc_mc("ConnLimiter", "ConnLimiter_mc.cfg", coverage=th, name="2 listeners, all stop>=resume up to 3")
    c.tlc_mc("ConnLimiter", "ConnLimiter_live.cfg", name="liveness Progress under WF(TryInc)", count=False)
    c.tlc_mc("ConnLimiter", "ConnLimiter_sanity_signal.cfg", expect_violation="NoLostWakeup",
             name="sanity: Signal instead of Broadcast loses a wake-up")
    c.tlc_mc("ConnLimiter", "ConnLimiter_sanity_closed.cfg", expect_violation="CounterExact",
             name="sanity: slot taken before the closed check leaks")
    if th:
        c.tlc_mc("ConnLimiter", "ConnLimiter_mc_big.cfg", name="3 listeners, all stop>=resume up to 4")
    behs = c.tlc_sim("ConnLimiter", "ConnLimiter_sim.cfg", num=300 if th else 50, depth=60 if th else 45)
    inp = os.path.join(c.scratch, "c18_behs.json")
    json.dump([{"stop": b[0]["stop"], "resume": b[0]["resume"],
                "steps": [{"a": s["a"], "l": s["l"], "c": s["c"]} for s in b]} for b in behs], open(inp, "w"))
    out, _ = c.go_harness("internal/connlimiter", "^TestVerifC18Stepper$",
                          env={"VERIF_IN": inp, "VERIF_NRANDOM": 2500 if th else 200})
    ev = read_ndjson(out)
    fails = c.validate_segments("TraceConnLimiter", "TraceConnLimiter.cfg", ev)
    out2, _ = c.go_harness("internal/connlimiter", "^TestVerifC18Stress$", race=True,
                           env={"VERIF_NSTRESS": 40 if th else 8})
    ev2 = read_ndjson(out2)
    fails += c.validate_segments("TraceConnLimiter", "TraceConnLimiter.cfg", ev2, is_reset=lambda e: True)
    unbounded(c)
    # pipeline limit
    c.tlc_mc("Pipeline", "Pipeline_mc.cfg", name="pipeline K=2 N=6 incl. liveness AllServed")
    out3, _ = c.go_harness("internal/dnsserver", "^TestVerifC18Pipeline$", files=["c18pipe_test.go", "vtls_test.go"])
    ev3 = read_ndjson(out3)
    pf = c.validate_segments("TracePipeline", "TracePipeline.cfg", ev3)
    for sg, idx, reason in pf:
        c.violation({"kind": "pipeline", "ev": sg[idx].get("ev")},
                    "C18 pipeline trace rejected (%s): k=%s n=%s tls=%s at event %d %s" % (
                        reason, sg[0].get("k"), sg[0].get("n"), sg[0].get("tls"), idx, json.dumps(sg[idx])),
                    {"segment": sg, "offending_index": idx, "reason": reason})
    c.sample({"pipeline_runs": [{"k": a["k"], "n": a["n"], "tls": a["tls"], "maxActive": b["maxActive"],
                                 "answered": b["answered"]}
                                for a, b in zip([e for e in ev3 if e["ev"] == "Reset"],
                                                [e for e in ev3 if e["ev"] == "End"])][:12]})
    if not any(b["maxActive"] == a["k"] for a, b in zip([e for e in ev3 if e["ev"] == "Reset"],
                                                        [e for e in ev3 if e["ev"] == "End"]) if a["n"] > a["k"]):
        from vlib import Undecided
        raise Undecided("pipeline harness never saturated the limit: vacuous")
    for e in ev3:
        if e["ev"] == "Reset":
            c.count_case(("pipe", e["k"], e["n"], e["tls"]), nontrivial=e["n"] > e["k"])
    # the listeners dnssvc builds around ONE shared limiter, whatever way a server is bound
    out4, _ = c.go_harness("internal/dnssvc", "^TestVerifC18Wiring$", files=["c18_test.go"],
                           env={"VERIF_ROUNDS": 12 if th else 4}, timeout=900)
    ev4 = read_ndjson(out4)
    kinds = set(n for e in ev4 for n in e["servers"])
    if len(ev4) < 3 or not {"dns_iface", "dns_addr"} & kinds or not any(n.endswith("_iface") for n in kinds) \
            or not any(e["max_active"] >= e["stop"] - len(e["servers"]) for e in ev4):
        from vlib import Undecided
        raise Undecided("wiring harness vacuous: %s" % [(e["servers"], e["stop"], e["max_active"]) for e in ev4])
    out5, _ = c.go_harness("internal/connlimiter", "^TestVerifC18CloseWaiter$", files=["c18close_test.go"],
                           env={"VERIF_ROUNDS": 30 if th else 6}, timeout=600)
    ev5 = read_ndjson(out5)
    if len(ev5) < 6:
        from vlib import Undecided
        raise Undecided("close-waiter harness recorded %d rounds" % len(ev5))
    out6, _ = c.go_harness("internal/connlimiter", "^TestVerifC18CloseRelease$", files=["c18close_test.go"],
                           env={"VERIF_ROUNDS": 40 if th else 12}, timeout=900)
    ev6 = read_ndjson(out6)
    if len(ev6) < 12 or not all(e["fired"] for e in ev6):
        from vlib import Undecided
        raise Undecided("close-release harness: %d rounds, hook fired in %d" % (len(ev6), sum(1 for e in ev6 if e["fired"])))
    nwire = len(ev4)
    ev4 = ev4 + ev5 + ev6
    p4 = os.path.join(c.scratch, "c18w.ndjson")
    from vlib import write_ndjson
    write_ndjson(p4, ev4)
    r4 = c.tlc_trace("TraceConnLimitWiring", "TraceConnLimitWiring.cfg", p4, timeout=300)
    if r4.tuples("STUCK"):
        from vlib import Undecided
        raise Undecided("wiring trace spec stuck")
    c.cov["traces_validated_against_impl"] += len(ev4) - len(r4.tuples("NONCONF"))
    for e in ev4[:nwire]:
        c.count_case(("wiring", tuple(e["servers"]), e["stop"], e["resume"], e["opened"]), nontrivial=True)
    for e in ev5:
        c.count_case(("closewaiter", e["round"]), nontrivial=True)
    for t in r4.tuples("NONCONF"):
        e = ev4[int(t[0]) - 1]
        if e["ev"] == "CloseRelease":
            c.violation({"kind": "close-release", "clause": re.findall(r'"(\w+)"', t[1])[0]},
                        "C18 %s: a connection was closed AND the listener was closed while an Accept of that listener had found all "
                        "%d slots taken and was about to wait: accept returned=%s (%s); another listener of the same limiter then "
                        "served a new connection=%s (%s)" % (t[1], e["stop"], e["released"], e["err"], e["other_served"],
                                                             e["other_err"]), e)
            continue
        if e["ev"] == "CloseWaiter":
            c.violation({"kind": "close-waiter"},
                        "C18 %s: a Close started while an Accept of the same listener had found the counter full and was about to "
                        "wait: hook fired=%s, accept returned=%s (%s), Close returned=%s" % (
                            t[1], e["fired"], e["released"], e["err"], e["close_returned"]), e)
            continue
        c.violation({"kind": "wiring", "clause": re.findall(r'"(\w+)"', t[1])[0]},
                    "C18 %s: listeners built by dnssvc for servers %s around one limiter (stop %d, resume %d): %d connections "
                    "opened, %d served at the same time, %d served in the end" % (
                        t[1], e["servers"], e["stop"], e["resume"], e["opened"], e["max_active"], e["served"]), e)
    seg = []
    for e in ev + [{"ev": "Reset"}]:
        if e["ev"] == "Reset":
            if seg:
                c.count_case(seg, nontrivial=any(x[3] for x in seg))
            seg = []
        elif e["ev"] != "End":
            c.cov["evaluations"] += 1
            seg.append((e["ev"], e["l"], e["c"], "parked" in e["pc"].values()))
    c.cov["evaluations"] -= len(c.distinct)
    c.cov["rule"] = ("a case is one sequence of external actions on 3 real limitListeners sharing a Limiter "
                     "(thresholds drawn per case); non-trivial = at some point a goroutine was parked in Cond.Wait; "
                     "distinct by the action sequence with observed parking")
    c.sample({"first_events": [{k: e[k] for k in ("ev", "l", "c", "cur", "accepting", "pc")} for e in ev[:12]]})
    for seg, idx, reason in fails:
        e = seg[idx]
        acts = [(x["ev"], x.get("l", ""), x.get("c", 0)) for x in seg[1:idx + 1]]
        c.violation({"kind": "trace-rejected", "reason": reason.split()[0], "ev": e.get("ev")},
                    "C18 trace rejected (%s) at event %d %s (or the observation after the previous event does not "
                    "match the spec); stop=%s resume=%s; last actions %s; observed %s; previous %s" % (
                        reason, idx, e.get("ev"), seg[0].get("stop"), seg[0].get("resume"), acts[-10:],
                        json.dumps(e)[:300], json.dumps(seg[idx - 1])[:300] if idx else ""),
                    {"segment": seg, "offending_index": idx, "reason": reason})
    c.assumptions += [
        "goroutine states from runtime.Stack identify accepts parked in sync.Cond.Wait",
        "the harness acts at quiescent points only; interleavings inside a wake-up storm are covered by the "
        "exhaustive TLC run and by the free-running stress (summary events), not forced on the real code",
        "TLC, SANY, CommunityModules Json",
    ]


if __name__ == "__main__":
    main("C18", run)
