"""EXT6  (extension, not a listed property) the web service answers every request on every listener as
documented, block pages and certificates survive failed refreshes, and all TLS configurations share one
certificate store and one set of session-ticket keys.

Components: internal/websvc without the linked-IP proxy (specs/WebSvc.tla decision table, specs/BlockPage.tla
refresh + life cycle) and internal/tlsconfig (specs/TLSManager.tla)."""
import json
import os
import re
from concurrent.futures import ThreadPoolExecutor

from vlib import Check, NCPU, read_ndjson, write_ndjson, main, Undecided, load_known, match_known

TLS_INV = "TypeOK StoredNeverNil NoDuplicatePairs HandshakeSeesLoadedCert AllConfigsSameTickets KeysAreOneRead SessionsPortable"


def segments(ev, is_reset=lambda e: e.get("ev") == "Reset"):
    segs, cur = [], []
    for e in ev:
        if is_reset(e) and cur:
            segs.append(cur)
            cur = []
        cur.append(e)
    if cur:
        segs.append(cur)
    return segs


def only_known(c):
    """True when every violation recorded so far is a listed finding: vacuity guards stay in force then (a new
    violation is reported rather than hidden behind an 'undecided')."""
    known = load_known(c.pid)
    return all(match_known(known, sig) is not None for sig, _, _ in c.violations)


def report(c, items):
    """One violation per distinct signature (the first occurrence is the replay object, the number of
    occurrences goes into the description)."""
    groups = {}
    for sig, desc, replay in items:
        k = json.dumps(sig, sort_keys=True)
        groups.setdefault(k, [sig, desc, replay, 0])[3] += 1
    for sig, desc, replay, n in groups.values():
        c.violation(sig, desc + (" [%d occurrences with this signature in this run]" % n if n > 1 else ""), replay)


def maximal(behs, depth):
    """TLC evaluates the state constraint (which prints the history) also for successor candidates it does not
    follow; keep the full-length walks only, one per distinct walk up to the last step."""
    res = []
    for b in sorted(behs, key=len, reverse=True):
        if len(b) < depth - 2:
            continue
        if any(k[:len(b) - 1] == b[:-1] for k in res):
            continue
        res.append(b)
    return res


def validate(c, module, cfg, segs, max_fail=12, timeout=900):
    """Stuck-at-first-unexplained-event validation of a list of segments.  Returns
    ([(segment, index, reason)], [(event, reasons)]): rejected segments and the NONCONF lines of the rest."""
    segs = list(segs)
    failures, nonconf, total = [], [], len(segs)
    while segs:
        flat = [e for sg in segs for e in sg]
        path = os.path.join(c.scratch, "trace_in.ndjson")
        write_ndjson(path, flat)
        r = c.tlc_trace(module, cfg, path, timeout=timeout)
        if r.ok:
            nonconf = [(flat[int(t[0]) - 1], t[1]) for t in r.tuples("NONCONF")]
            break
        if r.violated:
            ls = re.findall(r"^/\\ l = (\d+)", r.out, re.M)
            if not ls:
                raise Undecided("invariant %s violated but no l in trace:\n%s" % (r.violated, r.out[-3000:]))
            bad = int(ls[-1]) - 2
            reason = "invariant %s violated after this event" % r.violated
        else:
            st = r.tuples("STUCK")
            if not st:
                raise Undecided("trace rejected without STUCK/invariant:\n%s" % r.out[-3000:])
            bad = int(st[-1][0]) - 1
            reason = "no spec action explains this event"
        if bad < 0 or bad >= len(flat):
            raise Undecided("bad offending index %d of %d" % (bad, len(flat)))
        acc = 0
        for si, sg in enumerate(segs):
            if bad < acc + len(sg):
                failures.append((sg, bad - acc, reason))
                del segs[si]
                break
            acc += len(sg)
        if len(failures) >= max_fail:
            break
    c.cov["traces_validated_against_impl"] += total - len(failures)
    return failures, nonconf


# actions that exist for a defect variant or for the generation of behaviours only
DEFECT_ONLY = {"Init", "RefreshSwap2", "SimNext", "SimAny", "SimRefresh", "Class", "RotRest", "RefreshRest"}


def run_models(c):
    th = c.thorough
    jobs = [
        ("WebSvc", "WebSvc_mc.cfg", None, "6 listeners x 6 methods x 9 path classes x 7 Accept-Encoding classes x 72 configurations"),
        ("WebSvc", "WebSvc_sanity_robots.cfg", "RobotsOverridable", "sanity: the built-in robots answer wins over the static content"),
        ("WebSvc", "WebSvc_sanity_contract.cfg", "ImplIsContract", "sanity: the same defect, seen as a difference from the contract table"),
        ("WebSvc", "WebSvc_sanity_nil.cfg", "ServerAlways", "sanity: the nil service forgets the Server header"),
        ("WebSvc", "WebSvc_sanity_static.cfg", "StaticOnlyOnWeb", "sanity: a block-page server serves static content"),
        ("WebSvc", "WebSvc_sanity_block200.cfg", "BlockPages", "sanity: block pages served with 200"),
        ("WebSvc", "WebSvc_sanity_errct.cfg", "ErrorPages", "sanity: the HTML error page keeps the plain-text content type"),
        ("WebSvc", "WebSvc_sanity_redirect.cfg", "RootRedirect", "sanity: the root redirects without a configured URL"),
        ("WebSvc", "WebSvc_sanity_prefix.cfg", "DNSCheckDelegated", "sanity: sub-paths of /dnscheck/test are delegated"),
        ("WebSvc", "WebSvc_sanity_gzip.cfg", "GzipOnlyWhenAccepted", "sanity: block pages always compressed"),
        ("BlockPage", "BlockPage_mc.cfg", None, "2 servers (any subset configured), 2 versions, refresh steps interleaved with file writes, requests, Start / Shutdown"),
        ("BlockPage", "BlockPage_sanity_clear.cfg", "FailedRefreshKeepsOld", "sanity: an unreadable file empties the page"),
        ("BlockPage", "BlockPage_sanity_abort.cfg", "RefreshIsTotal", "sanity: the first failure ends the refresh"),
        ("BlockPage", "BlockPage_sanity_twostep.cfg", "PairConsistent", "sanity: plain and compressed page stored in two critical sections"),
        ("BlockPage", "BlockPage_sanity_silent.cfg", "RetNamesTheFailures", "sanity: Refresh hides a failure"),
        ("TLSManager", "TLSManager_mc.cfg", None, "certificates: 2 pairs x {A1, A2, B1, garbage, missing}, 1 configuration, 4 SNI classes, no ticket paths"),
        ("TLSManager", "TLSManager_mc_tickets.cfg", None, "tickets: 2 key files x {k1, k2, short, missing}, 2 configurations, rotation steps interleaved with clones and file writes"),
        ("TLSManager", "TLSManager_mc_sessions.cfg", None, "sessions: 1 key file x {k1, k2}, 2 configurations, 1 session issued / resumed in the middle of rotations"),
        ("TLSManager", "TLSManager_sanity_refreshnil.cfg", "FailedRefreshKeepsOld", "sanity: a pair that cannot be loaded is replaced by nothing and Refresh says ok"),
        ("TLSManager", "TLSManager_sanity_nil.cfg", "StoredNeverNil", "sanity: the same defect leaves a nil certificate in the store"),
        ("TLSManager", "TLSManager_sanity_abort.cfg", "RefreshIsTotal", "sanity: Refresh stops at the first failing pair"),
        ("TLSManager", "TLSManager_sanity_stale.cfg", "RefreshIsTotal", "sanity: Refresh does not replace the stored certificate"),
        ("TLSManager", "TLSManager_sanity_adddup.cfg", "NoDuplicatePairs", "sanity: Add stores a pair twice"),
        ("TLSManager", "TLSManager_sanity_addbad.cfg", "FailedAddKeepsOld", "sanity: Add stores a pair it could not load"),
        ("TLSManager", "TLSManager_sanity_last.cfg", "HandshakeSeesLoadedCert", "sanity: the last matching pair is selected"),
        ("TLSManager", "TLSManager_sanity_any.cfg", "HandshakeSeesLoadedCert", "sanity: an unknown name gets the first pair"),
        ("TLSManager", "TLSManager_sanity_snapshot.cfg", "HandshakeSeesLoadedCert", "sanity: a configuration keeps a snapshot of the store"),
        ("TLSManager", "TLSManager_sanity_partial.cfg", "FailedRotateKeepsOld", "sanity: keys read before the failing file are installed"),
        ("TLSManager", "TLSManager_sanity_mix.cfg", "KeysAreOneRead", "sanity: the same defect leaves a partial key set"),
        ("TLSManager", "TLSManager_sanity_clones.cfg", "AllConfigsSameTickets", "sanity: CloneWithMetrics configurations are skipped by the rotation"),
        ("TLSManager", "TLSManager_sanity_clonestotal.cfg", "RotationIsTotal", "sanity: the same defect, seen by RotationIsTotal"),
        ("TLSManager", "TLSManager_sanity_portable.cfg", "SessionsPortable", "sanity: the same defect makes tickets worthless on the other listener"),
        ("TLSManager", "TLSManager_sanity_first.cfg", "RotationIsTotal", "sanity: only the first key file is used"),
    ]
    if th:
        jobs += [("BlockPage", "BlockPage_mc_big.cfg", None, "3 servers (any subset configured), 1 version"),
                 ("BlockPage", "BlockPage_mc_big2.cfg", None, "2 servers, 3 versions"),
                 ("TLSManager", "TLSManager_mc_big.cfg", None, "certificates: 2 pairs x {A1, A2, B1, AB1, garbage, mismatch, missing}, 2 configurations"),
                 ("TLSManager", "TLSManager_mc_big3.cfg", None, "certificates: 3 pairs x {A1, A2, B1, garbage, missing}, 1 configuration"),
                 ("TLSManager", "TLSManager_mc_tickets_big.cfg", None, "tickets: {k1, k2, long k1, short}, 2 configurations, 1 session"),
                 ("TLSManager", "TLSManager_mc_tickets_big3.cfg", None, "tickets: {k1, k2, short}, 3 configurations")]
    w = max(2, min(4, NCPU // 4))

    def one(j):
        mod, cfg, exp, name = j
        nw = 1 if exp is not None else (max(w, min(8, NCPU // 2)) if "_big" in cfg else w)
        return c.tlc_mc(mod, cfg, workers=nw, expect_violation=exp, count=False, name=name, timeout=1500,
                        coverage=(exp is None and "_big" not in cfg))

    with ThreadPoolExecutor(max_workers=4) as ex:
        res = list(ex.map(one, jobs))
    untaken = []
    for j, r in zip(jobs, res):
        if j[2] is None:
            c.cov["states"] += r.distinct
            c.cov["transitions"] += r.generated
    # every action of a module is taken in at least one of its exhaustive runs
    for mod in sorted(set(j[0] for j in jobs)):
        zero = None
        for j, r in zip(jobs, res):
            if j[0] != mod or j[2] is not None or "_big" in j[1]:
                continue
            z = set(a for a, _, m in r.zero_coverage() if m == mod and a not in DEFECT_ONLY)
            zero = z if zero is None else zero & z
        if zero:
            untaken += ["%s.%s" % (mod, a) for a in sorted(zero)]
    if untaken:
        raise Undecided("actions never taken in any exhaustive run: %s" % untaken)
    c.cov["exhaustive"] = True


# ----------------------------------------------------------------------------- TLS manager
TLS_ACTIONS = {"WriteFile", "WriteTicket", "Add", "Refresh", "Clone", "Rotate", "Handshake", "Issue", "Resume"}


def tls_describe(sg, idx):
    e = sg[idx]
    files, tickets = {}, {}
    for x in sg[:idx]:
        if x["ev"] == "WriteFile":
            files[x["p"]] = x["c"]
        elif x["ev"] == "WriteTicket":
            tickets[x["i"]] = x["k"]
    acts = []
    for x in sg[1:idx + 1]:
        a = [x["ev"]] + [x[k] for k in ("p", "c", "kind", "i", "k", "s", "ret", "r") if k in x and x[k] != ""]
        acts.append(" ".join(str(v) for v in a))
    return files, tickets, acts


def run_tls(c):
    th = c.thorough
    behs = []
    for ntp, cfg, num, depth in ((2, "TLSManager_sim.cfg", 40 if th else 9, 60 if th else 45),
                                 (2, "TLSManager_simfail.cfg", 8 if th else 3, 30),
                                 (1, "TLSManager_sim1.cfg", 12 if th else 3, 60 if th else 45)):
        behs.append((ntp, cfg, maximal(c.tlc_sim("TLSManager", cfg, num=num, depth=depth), depth)))
    inp = os.path.join(c.scratch, "ext6_tls_behs.json")
    json.dump([{"ntp": ntp, "steps": [{k: st[k] for k in ("a", "p", "c", "i", "k")} for st in b]}
               for ntp, _, bs in behs for b in bs], open(inp, "w"))
    out, _ = c.go_harness("internal/tlsconfig", "^TestVerifEXT6TLSStepper$", files=["ext6_test.go"], env={"VERIF_IN": inp})
    events = read_ndjson(out)
    segs = segments(events)
    fails = []
    for ntp in (0, 1, 2):
        group = [sg for sg in segs if sg[0]["ntp"] == ntp]
        if not group:
            raise Undecided("no world with %d ticket paths" % ntp)
        f, _ = validate(c, "TraceTLSManager", "TraceTLSManager%d.cfg" % ntp, group)
        fails += f
    # vacuity accounting
    seen = {a: 0 for a in TLS_ACTIONS}
    outcomes = {"add_err": 0, "add_dup": 0, "refresh_unusable": 0, "rotate_err": 0, "rotate_ok": 0, "resumed": 0, "full": 0,
                "hs_fail": 0, "hs_cert": 0, "cross_resumed": 0, "cross_full": 0, "issue_fail": 0, "refresh_changed": 0}
    for sg in segs:
        stored = set()
        files = {}
        prev_hs = None
        key = []
        for e in sg:
            ev = e["ev"]
            if ev in seen:
                seen[ev] += 1
                c.cov["evaluations"] += 1
            key.append((ev, e.get("p"), e.get("c"), e.get("i"), e.get("k"), e.get("s"), e.get("ret"), e.get("r")))
            if ev == "WriteFile":
                files[e["p"]] = e["c"]
            if ev == "Add":
                outcomes["add_err"] += e["ret"] == "err"
                outcomes["add_dup"] += e["ret"] == "ok" and e["p"] in stored
                if e["ret"] == "ok":
                    stored.add(e["p"])
            elif ev == "Refresh":
                outcomes["refresh_unusable"] += any(files.get(p) in ("none", "garbage", "mismatch") for p in stored)
                outcomes["refresh_changed"] += prev_hs is not None and [x["r"] for x in e["hs"]] != prev_hs
            elif ev == "Rotate":
                outcomes["rotate_err"] += e["ret"] == "err"
                outcomes["rotate_ok"] += e["ret"] == "ok" and sg[0]["ntp"] > 0
                outcomes["cross_resumed"] += sum(1 for x in e["x"] if x["r"] == "resumed" and x["i"] != x["j"])
                outcomes["cross_full"] += sum(1 for x in e["x"] if x["r"] == "full")
            elif ev == "Resume":
                outcomes["resumed"] += e["r"] == "resumed"
                outcomes["full"] += e["r"] == "full"
            elif ev == "Handshake":
                outcomes["hs_fail"] += e["r"] == "fail"
                outcomes["hs_cert"] += e["r"] not in ("fail", "panic")
            elif ev == "Issue":
                outcomes["issue_fail"] += not e["ok"]
            if "hs" in e and ev in ("Add", "Refresh"):
                prev_hs = [x["r"] for x in e["hs"]]
        c.count_case(("tls", key), nontrivial=any(k[0] in ("Refresh", "Rotate") for k in key))
    c.cov["evaluations"] -= len(segs)
    c.notes.append("TLS manager stepper: %d worlds (%d from TLC behaviours), %d events; steps %s; outcomes %s" % (
        len(segs), sum(1 for sg in segs if sg[0].get("src") == "sim"), len(events), dict(sorted(seen.items())),
        dict(sorted(outcomes.items()))))
    viol = []
    for sg, idx, reason in fails:
        e = sg[idx]
        files, tickets, acts = tls_describe(sg, idx)
        kind = "tls-" + e["ev"].lower()
        sig = {"kind": kind, "ret": e.get("ret", e.get("r", "")), "reason": reason.split()[0]}
        extra = ""
        if e["ev"] == "Refresh":
            unusable = sorted(p for p, x in files.items() if x in ("none", "garbage", "mismatch") and
                              any(w.startswith(p + ":") for w in e.get("wb", [])))
            sig["unloadable_pair_stored"] = bool(unusable)
            panics = sorted(set((x["i"], x["s"]) for x in e.get("hs", []) if x["r"] == "panic"))
            sig["handshake_panics"] = bool(panics)
            extra = ("; stored pairs whose files cannot be loaded: %s; Refresh returned %r (error text %r), error collector "
                     "called: %s; store afterwards (white box) %s; handshakes that made the server side panic afterwards: "
                     "%d of %d %s" % (unusable, e["ret"], e.get("err"), e.get("coll"), e.get("wb"), len(panics), len(e.get("hs", [])),
                                      (e.get("detail") or [""])[0][:160]))
        elif e["ev"] == "Rotate":
            extra = "; ticket files %s; returned %r (%s) status metric %r collected %s; held sessions %s; new sessions %s" % (
                tickets, e["ret"], e.get("err"), e.get("status"), e.get("coll"), e.get("res"), e.get("x"))
        elif "hs" in e:
            extra = "; returned %r (%s) loads=%s; files %s; store (white box) %s; handshakes %s" % (
                e.get("ret"), e.get("err"), e.get("loads"), files, e.get("wb"),
                [(x["i"], x["s"], x["r"]) for x in e["hs"]][:30])
        else:
            extra = "; %s; files %s tickets %s" % ({k: v for k, v in e.items() if k != "ev"}, files, tickets)
        viol.append((sig, "EXT6 TLS manager trace rejected (%s) at event %d %s of a world with %d ticket paths%s; steps so far: %s" % (
            reason, idx, e["ev"], sg[0]["ntp"], extra, acts[-14:]),
            {"segment": sg[:idx + 1], "offending_index": idx, "reason": reason}))
    report(c, viol)
    # spec actions taken in the accepted part of the traces (a rejected segment counts up to the offending event)
    cut = {id(sg): idx for sg, idx, _ in fails}
    acts = set()
    for sg in segs:
        ncfg = 0
        for e in sg[:cut.get(id(sg), len(sg))]:
            ev = e["ev"]
            if ev == "Clone":
                ncfg += 1
            if ev == "Rotate":
                if sg[0]["ntp"] == 0:
                    acts.add("RotateNoop")
                elif e["ret"] == "err":
                    acts.add("RotateFail")
                else:
                    acts |= {"RotateRead", "RotateLock", "RotateDone"} | ({"RotateApply"} if ncfg else set())
            elif ev in TLS_ACTIONS:
                acts.add(ev)
    want = (TLS_ACTIONS - {"Rotate"}) | {"RotateNoop", "RotateFail", "RotateRead", "RotateLock", "RotateApply", "RotateDone"}
    c.notes.append("TLS manager: spec actions taken in accepted traces: %s" % sorted(acts))
    if only_known(c):
        miss = [a for a, n in seen.items() if n < 3]
        low = [k for k, n in outcomes.items() if n < 1]
        if miss or low or want - acts:
            raise Undecided("TLS stepper vacuous: steps seen %s; outcomes %s; spec actions never taken in an accepted trace %s" % (
                seen, outcomes, sorted(want - acts)))
    c.sample({"tls_first_events": [{k: v for k, v in e.items() if k not in ("hs", "detail")} for e in events[:8]]})

    # concurrent handshakes under the race detector
    try:
        out2, _ = c.go_harness("internal/tlsconfig", "^TestVerifEXT6TLSConcurrent$", files=["ext6_test.go"], race=True,
                               env={"VERIF_NREFRESH": 120 if th else 30, "VERIF_NWORKERS": 4})
    except Undecided as e:
        msg = str(e)
        i = msg.find("WARNING: DATA RACE")
        if i < 0:
            raise
        block = msg[i:i + 5000]
        accs = block.split("Previous ")
        tops = [[ln.strip() for ln in a.splitlines() if ln.strip().startswith("/")][:3] for a in accs[:2]]
        if any("zz_verif_" in f for t in tops for f in t[:1]):
            raise
        c.violation({"kind": "tls-data-race"},
                    "EXT6 data race between a handshake and Refresh / RotateTickets (race detector):\n" + block[:2500],
                    {"report": block})
        return
    ev2 = read_ndjson(out2)
    f2, nonconf = validate(c, "TraceTLSManager", "TraceTLSManager2.cfg", [ev2])
    if f2:
        raise Undecided("concurrent TLS trace could not be read: %s" % (f2[0][2],))
    reads = [e for e in ev2 if e["ev"] == "ConcRead"]
    over = sum(1 for e in reads if e["v0"] != e["v1"])
    for e in reads:
        c.count_case(("tlsconc", e["g"], e["v"], e["v0"], e["v1"]), nontrivial=e["v0"] != e["v1"])
    report(c, [({"kind": "tls-concurrent-handshake", "r": e["r"] if e["r"] in ("fail", "panic") else "cert", "reason": why[:60]},
                 "EXT6 handshake concurrent with Refresh saw %s (version %s) between refresh %s completed and refresh %s "
                 "started: %s" % (e["r"], e["v"], e["v0"], e["v1"], why), e) for e, why in nonconf])
    if only_known(c) and (len(reads) < 80 or len(set(e["v"] for e in reads)) < 5):
        raise Undecided("concurrent TLS run vacuous: %d handshakes, %d versions seen" % (len(reads), len(set(e["v"] for e in reads))))
    c.notes.append("TLS manager concurrent: %d full handshakes during %d refreshes + rotations (%d overlapping a refresh), "
                   "race detector silent" % (len(reads), ev2[0]["n"], over))

# ----------------------------------------------------------------------------- web service
def run_web_table(c):
    out, _ = c.go_harness("internal/websvc", "^TestVerifEXT6Table$", files=["ext6_test.go"])
    ev = read_ndjson(out)
    reqs = [e for e in ev if e["ev"] == "Req"]
    broken = [e for e in reqs if e["st"] < 0]
    if broken:
        raise Undecided("%d requests got no response, e.g. %s" % (len(broken), json.dumps(broken[0])))
    path = os.path.join(c.scratch, "ext6_web.ndjson")
    write_ndjson(path, ev)
    r = c.tlc_trace("TraceWebSvc", "TraceWebSvc.cfg", path)
    if r.tuples("STUCK") or (not r.ok and not r.tuples("NONCONF")):
        raise Undecided("web table trace run failed:\n%s" % r.out[-3000:])
    bad = r.tuples("NONCONF")
    c.cov["traces_validated_against_impl"] += len(ev) - len(bad)
    # vacuity: every abstract vector of the web handler, every listener, every class
    seen = set((e["lst"], e["m"], e["p"]) for e in reqs)
    confs = set(json.dumps(e["conf"], sort_keys=True) for e in reqs if e["lst"] == "web")
    webvec = set((json.dumps(e["conf"], sort_keys=True), e["m"], e["p"]) for e in reqs if e["lst"] == "web")
    need_l = {"web", "nilsvc", "safe", "adult", "general", "linkip"}
    if (need_l - set(e["lst"] for e in reqs) or len(confs) != 72 or len(webvec) != 72 * 6 * 9 or
            not any(e["via"] == "tls" for e in reqs) or
            len(set(e["ae"] for e in reqs if e["lst"] in ("safe", "adult", "general"))) < 7 or
            sum(1 for e in ev if e["ev"] == "Down") != 72 or not any(e["ev"] == "Nil" for e in ev)):
        raise Undecided("web table vacuous: %d requests, %d configurations, %d web vectors, listeners %s" % (
            len(reqs), len(confs), len(webvec), sorted(set(e["lst"] for e in reqs))))
    for e in reqs:
        c.count_case(("web", e["conf"] if e["lst"] == "web" else None, e["lst"], e["via"], e["m"], e["raw"], e["ae"]),
                     nontrivial=e["p"] not in ("miss",))
    outcomes = {}
    for e in reqs:
        outcomes.setdefault("%s %s" % (e["st"], e["body"].split(":")[0]), 0)
        outcomes["%s %s" % (e["st"], e["body"].split(":")[0])] += 1
    c.notes.append("web table: %d raw requests over %d started services (72 configurations), %d over TLS; listeners %s; "
                   "answers %s" % (len(reqs), sum(1 for e in ev if e["ev"] == "Down"), sum(1 for e in reqs if e["via"] == "tls"),
                                   {k: sum(1 for e in reqs if e["lst"] == k) for k in sorted(need_l)}, dict(sorted(outcomes.items()))))
    for e in ev:
        if e["ev"] == "Obs":
            c.notes.append("observation (no verdict): %s -> status %s (%s); the next request on a new connection is answered "
                           "with %s" % (e["what"], e["st"], e["err"] or "no transport error", e["next_st"]))
    q0 = [e for e in reqs if e["ae"] == "q0" and e["body"].startswith("blockgz")]
    if q0:
        c.notes.append("observation (no verdict): %d block-page requests with 'Accept-Encoding: gzip;q=0' were answered with a "
                       "gzip body (substring test, TODO in serveBlockPage); 'GZIP' in capitals is not recognised" % len(q0))
    c.sample({"web_requests": [{k: v for k, v in e.items() if k != "ev"} for e in reqs[:2]]})
    viol = []
    for t in bad:
        e = ev[int(t[0]) - 1]
        why = t[1]
        if e["ev"] != "Req":
            viol.append(({"kind": "websvc-lifecycle", "ev": e["ev"], "reason": why[:80]},
                         "EXT6 web service life cycle: %s: %s" % (why, json.dumps(e)), e))
            continue
        conf = e["conf"]
        viol.append(({"kind": "websvc-table", "lst": e["lst"], "p": e["p"], "sc": conf["sc"] if e["lst"] == "web" else "",
                      "st": e["st"], "ct": e["ct"], "target": e["target"],
                      "observed_body": e["body"].split(":")[0] if e["m"] != "HEAD" else "head", "reason": why[:120]},
                    "EXT6 web table: %s %s (class %s) on listener %s via %s with Accept-Encoding class %s and configuration %s "
                    "-> status %s, body %s, Content-Type %r, headers %s, delegated to %s; differs from the table of "
                    "specs/WebSvc.tla in: %s" % (e["m"], e["raw"], e["p"], e["lst"], e["via"], e["ae"], json.dumps(conf),
                                                 e["st"], e["body"], e["ct"], e["hdr"], e["target"], why), e))
    report(c, viol)


def run_blockpage(c):
    th = c.thorough
    depth = 40
    behs = maximal(c.tlc_sim("BlockPage", "BlockPage_sim.cfg", num=30 if th else 6, depth=depth), depth)
    worlds = [{"conf": [], "steps": [{"a": "Refresh", "s": "", "v": 0}, {"a": "Start", "s": "", "v": 0},
                                     {"a": "Refresh", "s": "", "v": 0}, {"a": "Shutdown", "s": "", "v": 0}]},
              # an unreadable file in front of a changed one; repair; removal of a loaded page; shutdown before start
              {"conf": ["adult", "safe"], "steps": [
                  {"a": "Write", "s": "safe", "v": 1}, {"a": "Refresh", "s": "", "v": 0}, {"a": "Write", "s": "adult", "v": 1},
                  {"a": "Write", "s": "safe", "v": 2}, {"a": "Refresh", "s": "", "v": 0}, {"a": "Start", "s": "", "v": 0},
                  {"a": "Remove", "s": "adult", "v": 0}, {"a": "Write", "s": "safe", "v": 3}, {"a": "Refresh", "s": "", "v": 0},
                  {"a": "Remove", "s": "safe", "v": 0}, {"a": "Write", "s": "adult", "v": 4}, {"a": "Refresh", "s": "", "v": 0},
                  {"a": "Shutdown", "s": "", "v": 0}, {"a": "Refresh", "s": "", "v": 0}]},
              {"conf": ["general"], "steps": [{"a": "Shutdown", "s": "", "v": 0}, {"a": "Write", "s": "general", "v": 1},
                                              {"a": "Refresh", "s": "", "v": 0}]}]
    for b in behs:
        worlds.append({"conf": b[0]["conf"], "steps": [{k: st[k] for k in ("a", "s", "v")} for st in b]})
    inp = os.path.join(c.scratch, "ext6_bp_worlds.json")
    json.dump(worlds, open(inp, "w"))
    out, _ = c.go_harness("internal/websvc", "^TestVerifEXT6BlockPage$", files=["ext6_test.go"], env={"VERIF_IN": inp})
    ev = read_ndjson(out)
    segs = segments(ev)
    fails, _ = validate(c, "TraceBlockPage", "TraceBlockPage.cfg", segs)
    n = {"refresh": 0, "refresh_unreadable": 0, "refresh_partial": 0, "changed": 0, "start": 0, "shutdown": 0, "confs": set()}
    for sg in segs:
        files = {}
        n["confs"].add(tuple(sg[0]["conf"]))
        prev = None
        for e in sg:
            if e["ev"] == "Write":
                files[e["s"]] = e["v"]
            elif e["ev"] == "Remove":
                files[e["s"]] = 0
            elif e["ev"] == "Refresh":
                n["refresh"] += 1
                unread = [s for s in sg[0]["conf"] if not files.get(s)]
                n["refresh_unreadable"] += bool(unread)
                n["refresh_partial"] += bool(unread) and len(unread) < len(sg[0]["conf"])
                cur = [(x["s"], x["plain"]) for x in e["seen"]]
                n["changed"] += prev is not None and cur != prev
                prev = cur
                c.cov["evaluations"] += 1
            elif e["ev"] in ("Start", "Shutdown"):
                n[e["ev"].lower()] += 1
        c.count_case(("bp", [(e["ev"], e.get("s"), e.get("v"), e.get("ret")) for e in sg]),
                     nontrivial=any(e["ev"] == "Refresh" for e in sg))
    c.notes.append("block-page stepper: %d worlds (%d from TLC behaviours), %s" % (
        len(segs), len(behs), {k: (len(v) if isinstance(v, set) else v) for k, v in n.items()}))
    viol = []
    for sg, idx, reason in fails:
        e = sg[idx]
        files = {}
        for x in sg[:idx]:
            if x["ev"] == "Write":
                files[x["s"]] = x["v"]
            elif x["ev"] == "Remove":
                files[x["s"]] = 0
        acts = [" ".join(str(x[k]) for k in ("ev", "s", "v", "ret") if k in x) for x in sg[1:idx + 1]]
        viol.append(({"kind": "blockpage-" + e["ev"].lower(), "ret": e.get("ret", ""), "reason": reason.split()[0]},
                    "EXT6 block-page trace rejected (%s) at event %d %s; configured %s; files (version, 0 = missing) %s; "
                    "returned %r (%s), servers named in the error %s; served afterwards %s; listeners up %s; steps: %s" % (
                        reason, idx, e["ev"], sg[0]["conf"], files, e.get("ret"), e.get("err", ""), e.get("failed"),
                        e.get("seen"), e.get("up"), acts[-12:]),
                    {"segment": sg[:idx + 1], "offending_index": idx, "reason": reason}))
    report(c, viol)
    cut = {id(sg): idx for sg, idx, _ in fails}
    acts = set()
    for sg in segs:
        files = {}
        for e in sg[:cut.get(id(sg), len(sg))]:
            if e["ev"] == "Write":
                files[e["s"]] = e["v"]
                acts.add("Write")
            elif e["ev"] == "Remove":
                files[e["s"]] = 0
                acts.add("Remove")
            elif e["ev"] == "Refresh":
                acts |= {"RefreshBegin", "RefreshDone"}
                if sg[0]["conf"]:
                    acts.add("RefreshRead")
                if any(files.get(s) for s in sg[0]["conf"]):
                    acts.add("RefreshSwap")
            elif e["ev"] in ("Start", "Shutdown"):
                acts.add(e["ev"])
    want = {"Write", "Remove", "RefreshBegin", "RefreshRead", "RefreshSwap", "RefreshDone", "Start", "Shutdown"}
    c.notes.append("block pages: spec actions taken in accepted traces: %s (Serve: the probes after every step and the "
                   "concurrent reads)" % sorted(acts))
    if only_known(c) and want - acts:
        raise Undecided("block-page stepper: spec actions never taken in an accepted trace: %s" % sorted(want - acts))
    if only_known(c) and (n["refresh"] < 20 or n["refresh_unreadable"] < 3 or n["refresh_partial"] < 1 or n["changed"] < 5 or
                          n["start"] < 3 or n["shutdown"] < 3 or len(n["confs"]) < 3):
        raise Undecided("block-page stepper vacuous: %s" % n)

    # concurrent readers under the race detector
    try:
        out2, _ = c.go_harness("internal/websvc", "^TestVerifEXT6BlockPageConc$", files=["ext6_test.go"], race=True,
                               env={"VERIF_NREFRESH": 200 if th else 60, "VERIF_KEEPREADS": 800 if th else 300})
    except Undecided as e:
        msg = str(e)
        i = msg.find("WARNING: DATA RACE")
        if i < 0:
            raise
        block = msg[i:i + 5000]
        accs = block.split("Previous ")
        tops = [[ln.strip() for ln in a.splitlines() if ln.strip().startswith("/")][:3] for a in accs[:2]]
        if any("zz_verif_" in f for t in tops for f in t[:1]):
            raise
        c.violation({"kind": "blockpage-data-race"},
                    "EXT6 data race between a block-page request and Refresh (race detector): a request can see a "
                    "half-updated page:\n" + block[:2500], {"report": block})
        return
    ev2 = read_ndjson(out2)
    f2, nonconf = validate(c, "TraceBlockPage", "TraceBlockPage.cfg", [ev2])
    if f2:
        raise Undecided("concurrent block-page trace could not be read: %s" % (f2[0][2],))
    reads = [e for e in ev2 if e["ev"] == "ConcRead"]
    over = sum(1 for e in reads if e["v0"] != e["v1"])
    for e in reads:
        c.count_case(("bpconc", e["s"], e["gz"], e["ver"], e["v0"], e["v1"]), nontrivial=e["v0"] != e["v1"])
    report(c, [({"kind": "blockpage-concurrent-read", "torn": e["ver"] < 0, "reason": why[:60]},
                 "EXT6 block-page request (server %s, gzip %s) concurrent with Refresh was served version %s between refresh "
                 "%s completed and refresh %s started: %s" % (e["s"], e["gz"], e["ver"], e["v0"] - 1, e["v1"] - 1, why), e)
                for e, why in nonconf])
    if only_known(c) and (len(reads) < 200 or len(set(e["ver"] for e in reads)) < 10 or
                          not any(e["gz"] for e in reads) or not any(not e["gz"] for e in reads)):
        raise Undecided("concurrent block-page run vacuous: %d reads, %d versions" % (len(reads), len(set(e["ver"] for e in reads))))
    c.notes.append("block-page concurrent: %d requests in total during %d refreshes, %d judged (%d overlapping a refresh), "
                   "race detector silent" % (ev2[-1].get("total", 0), ev2[0]["n"], len(reads), over))


def run(c: Check):
    run_models(c)
    # a failure of the machinery in one part must not hide a rejected trace of another part
    pending = []
    for part in (run_web_table, run_tls, run_blockpage):
        try:
            part(c)
        except Undecided as e:
            pending.append("%s: %s" % (part.__name__, e))
    if pending:
        if only_known(c):
            raise Undecided(" || ".join(pending))
        c.notes.append("parts that could not be decided in this run (a new violation is reported instead): %s" % (
            [p[:300] for p in pending],))
    c.cov["rule"] = ("cases: (a) one raw HTTP/1.1 request (listener, plain / TLS, method, request target, Accept-Encoding) to a "
                     "started websvc.Service of one of the 72 configurations, non-trivial = the path is not a plain miss, distinct "
                     "by configuration + vector; (b) one world of a real tlsconfig.DefaultManager (sequence of file writes, Add, "
                     "Refresh, Clone, RotateTickets, handshakes, session issue / resumption), non-trivial = it contains a Refresh "
                     "or a rotation; (c) one world of block-page files + Refresh / Start / Shutdown; (d) one handshake / block-page "
                     "request concurrent with refreshes, non-trivial = it overlapped one")
    c.assumptions += [
        "websvc table: where doc/configuration.md and doc/http.md are silent the code's reading is the table: methods are not "
        "looked at, HEAD is GET without a body, paths are compared exactly after percent-decoding, 'gzip;q=0' and any value "
        "containing 'gzip' count as accepting gzip, 404 / 500 answers of the DNSCheck handler and of the static content are "
        "re-dressed with the service's error pages and lose their own headers",
        "the DNSCheck handler and the static content are counted stand-ins (the real ones are EXT3 / trivial maps); the body of "
        "an answer is identified by comparison with everything the world can serve; net/http and net/url are trusted",
        "servers are started on loop-back ports found free a moment before (private network namespace); Start does not wait for "
        "the listeners, the harness polls until they accept; a second Start of a running or shut-down service is not exercised "
        "(net/http servers cannot be restarted, a failing listener panics by design)",
        "TLS manager: certificate selection (first stored pair supporting the ClientHello, no default certificate, no SNI -> first "
        "pair) and the automatic ticket keys of a configuration cloned after a rotation are the code's reading; certificates are "
        "self-signed ECDSA P-256; observations are real crypto/tls handshakes over loop-back TCP (TLS 1.2 and 1.3 alternate); a "
        "held session keeps its first ticket",
        "concurrent handshakes / block-page requests are judged by interval (refreshes completed before the call .. started "
        "before the return); tearing inside the critical sections is left to the Go race detector",
        "TLC, SANY, CommunityModules Json",
    ]


if __name__ == "__main__":
    main("EXT6", run)
