"""EXT3  (extension, not a listed property) the DNS-check service reports to a web client exactly what the DNS
side saw for the same identifier, for as long as documented, and never another identifier's data.

Specifications: specs/DNSCheck.tla (internal/dnscheck: which names are check queries and what they are answered
with; the DNS side stores, the web side reads back; local cache and store expiry over discrete seconds; two nodes
sharing one store) and specs/RemoteKV.tla (internal/remotekv: key namespacing, the LRU-backed store, the empty
store).  Real code: dnscheck.RemoteKV.Check / ServeHTTP, remotekv.KeyNamespace / Cache / Empty."""
import json
import os
from vlib import Check, read_ndjson, write_ndjson, main, Undecided

GOCACHE = "/root/go/pkg/mod/github.com/patrickmn/go-cache@v2.1.1-0.20191004192108-46f407853014+incompatible"


def segments(ev):
    segs, cur = [], []
    for i, e in enumerate(ev):
        if e["ev"] == "Reset" and cur:
            segs.append(cur)
            cur = []
        cur.append((i, e))
    if cur:
        segs.append(cur)
    return segs


def validate(c, module, cfg, ev, name):
    """per-line trace validation; returns {0-based event index: reasons} of the first
    non-conforming line of every segment"""
    path = os.path.join(c.scratch, "ext3_%s.ndjson" % name)
    write_ndjson(path, ev)
    r = c.tlc_trace(module, cfg, path, timeout=1800)
    if r.tuples("STUCK") or (not r.ok and not r.tuples("NONCONF")):
        raise Undecided("trace spec %s did not consume the trace of %s:\n%s" % (module, name, r.out[-3000:]))
    bad = {}
    for t in r.tuples("NONCONF"):
        bad[int(t[0]) - 1] = t[1]
    first = {}
    nseg = 0
    for sg in segments(ev):
        nseg += 1
        for i, e in sg:
            if i in bad:
                first[i] = bad[i]
                break
    c.cov["traces_validated_against_impl"] += nseg - len(first)
    return first


def run_remotekv(c, th):
    c.tlc_mc("RemoteKV", "RemoteKV_mc.cfg", name="3 namespaces x 2 keys, map / LRU(1,2) / empty store, 5 operations")
    c.tlc_mc("RemoteKV", "RemoteKV_sanity_prefix.cfg", expect_violation="NamespaceIsolation",
             name="sanity: Get does not apply the namespace prefix")
    c.tlc_mc("RemoteKV", "RemoteKV_sanity_sep.cfg", expect_violation="NamespaceIsolation",
             name="sanity: keys may contain the separator of nested prefixes")
    c.tlc_mc("RemoteKV", "RemoteKV_sanity_lru.cfg", expect_violation="LRUExact",
             name="sanity: a hit does not refresh the entry's recency")
    if th:
        c.tlc_mc("RemoteKV", "RemoteKV_mc_big.cfg", timeout=1800, name="LRU(1..3), 7 operations")
    behs = c.tlc_sim("RemoteKV", "RemoteKV_sim.cfg", num=200 if th else 40, depth=40)
    inp = os.path.join(c.scratch, "ext3_kv_behs.json")
    json.dump(behs, open(inp, "w"))
    out, _ = c.go_harness("internal/remotekv", "^TestVerifEXT3KV$", files=["ext3_test.go"],
                          env={"VERIF_IN": inp, "VERIF_NRANDOM": 3000 if th else 300})
    ev = read_ndjson(out)
    bad = validate(c, "TraceRemoteKV", "TraceRemoteKV.cfg", ev, "kv")
    hits = sum(1 for e in ev if e["ev"] == "Get" and e["ok"])
    evicted = 0
    for sg in segments(ev):
        written = set()
        for _, e in sg:
            if e["ev"] == "Set":
                written.add((e["n"], e["k"]))
            elif e["ev"] == "Get" and not e["ok"] and (e["n"], e["k"]) in written and sg[0][1]["backing"] == "lru":
                evicted += 1
    if hits < 50 or evicted < 10:
        raise Undecided("vacuous remotekv run: %d hits, %d reads of evicted keys" % (hits, evicted))
    for sg in segments(ev):
        ops = [(e["ev"], e["n"], e["k"]) for _, e in sg[1:]]
        c.count_case(("kv", sg[0][1]["backing"], sg[0][1]["cap"], ops),
                     nontrivial=any(e["ev"] == "Get" and e["ok"] for _, e in sg))
        c.cov["evaluations"] += len(sg) - 2
    c.sample({"remotekv": [(e["ev"], e["n"], e["k"], e["v"], e["ok"]) for e in ev[:12]]})
    for i, reasons in bad.items():
        e = ev[i]
        seg = [x for x in ev if x["seg"] == e["seg"]]
        j = seg.index(e)
        c.violation({"kind": "remotekv", "op": e["ev"], "backing": seg[0]["backing"], "reason": reasons[:80]},
                    "EXT3 remotekv: %s through namespace %r key %r on a %s store (cap %s) returned ok=%s value=%r "
                    "(raw key %r): %s; operations so far: %s" % (
                        e["ev"], e["n"], e["k"], seg[0]["backing"], seg[0]["cap"], e["ok"], e["v"], e["raw"], reasons,
                        [(x["ev"], x["n"], x["k"], x["v"], x["ok"]) for x in seg[1:j + 1]][-14:]),
                    {"segment": seg[:j + 1], "reasons": reasons})


def run(c: Check):
    th = c.thorough
    run_remotekv(c, th)
    c.cov["rule"] = ("a case is one history (sequence of DNS queries, web requests, clock ticks and foreign writes on two "
                     "real dnscheck.RemoteKV nodes sharing one store; or a sequence of Set/Get calls on real "
                     "remotekv namespaces over one store); non-trivial = at least one web request answered 200 / "
                     "one Get that hit; distinct by the sequence of actions with their arguments; evaluations = "
                     "events validated")
    c.assumptions += [
        "TLC, SANY, CommunityModules Json",
    ]


if __name__ == "__main__":
    main("EXT3", run)
