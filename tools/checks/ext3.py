"""EXT3  (extension, not a listed property) the DNS-check service reports to a web client exactly what the DNS
side saw for the same identifier, for as long as documented, and never another identifier's data.

Specifications: specs/DNSCheck.tla (internal/dnscheck: which names are check queries and what they are answered
with; the DNS side stores, the web side reads back; local cache and store expiry over discrete seconds; two nodes
sharing one store) and specs/RemoteKV.tla (internal/remotekv: key namespacing, the LRU-backed store, the empty
store).  Real code: dnscheck.RemoteKV.Check / ServeHTTP, remotekv.KeyNamespace / Cache / Empty."""
import json
import os
from concurrent.futures import ThreadPoolExecutor
from vlib import Check, read_ndjson, write_ndjson, main, Undecided

GOCACHE = "/root/go/pkg/mod/github.com/patrickmn/go-cache@v2.1.1-0.20191004192108-46f407853014+incompatible"


def segments(ev):
    segs, cur = [], []
    for i, e in enumerate(ev):
        if e["ev"] == "Reset" and cur:
            segs.append(cur)
            cur = []
        cur.append((i, e))
    if cur:
        segs.append(cur)
    return segs


def validate(c, module, cfg, ev, name):
    """per-line trace validation; returns {0-based event index: reasons} of the first
    non-conforming line of every segment"""
    path = os.path.join(c.scratch, "ext3_%s.ndjson" % name)
    write_ndjson(path, ev)
    r = c.tlc_trace(module, cfg, path, timeout=1800)
    if r.tuples("STUCK") or (not r.ok and not r.tuples("NONCONF")):
        raise Undecided("trace spec %s did not consume the trace of %s:\n%s" % (module, name, r.out[-3000:]))
    bad = {}
    for t in r.tuples("NONCONF"):
        bad[int(t[0]) - 1] = t[1]
    first = {}
    nseg = 0
    for sg in segments(ev):
        nseg += 1
        for i, e in sg:
            if i in bad:
                first[i] = bad[i]
                break
    c.cov["traces_validated_against_impl"] += nseg - len(first)
    return first


POOL = ThreadPoolExecutor(max_workers=4)
JOBS = []


def design(c, module, cfg, **kw):
    """exhaustive / sanity TLC run in the background (the runs are independent of each other and of the
    harness runs); results are collected by collect()"""
    kw.setdefault("workers", 4)
    kw["count"] = False  # counted by collect() in the main thread
    JOBS.append((POOL.submit(c.tlc_mc, module, cfg, **kw), "expect_violation" not in kw))


def collect(c):
    for j, counted in JOBS:
        r = j.result()
        if counted:
            c.cov["states"] += r.distinct
            c.cov["transitions"] += r.generated


def queue_design(c, th):
    if th:  # the long runs first
        design(c, "DNSCheck", "DNSCheck_mc_big.cfg", timeout=2400, name="4 operations, 5 s")
        design(c, "DNSCheck", "DNSCheck_conc_mc_big.cfg", timeout=2400, name="two-step Check, 3 operations, 4 s")
        design(c, "DNSCheck", "DNSCheck_table_mc_big.cfg", timeout=1800, name="every name up to 6 characters")
        design(c, "RemoteKV", "RemoteKV_mc_big.cfg", timeout=1800, name="LRU(1..3), 7 operations")
    design(c, "RemoteKV", "RemoteKV_mc.cfg", name="3 namespaces x 2 keys, map / LRU(1,2) / empty store, 5 operations")
    design(c, "RemoteKV", "RemoteKV_sanity_prefix.cfg", expect_violation="NamespaceIsolation",
           name="sanity: Get does not apply the namespace prefix")
    design(c, "RemoteKV", "RemoteKV_sanity_sep.cfg", expect_violation="NamespaceIsolation",
           name="sanity: keys may contain the separator of nested prefixes")
    design(c, "RemoteKV", "RemoteKV_sanity_lru.cfg", expect_violation="LRUExact",
           name="sanity: a hit does not refresh the entry's recency")
    design(c, "DNSCheck", "DNSCheck_table_mc.cfg", name="every name up to 5 characters over {a B - . _ c} x {A, AAAA, other}, "
             "domains c and c.c")
    design(c, "DNSCheck", "DNSCheck_mc.cfg", name="2 nodes, 2 ids, cache 2 s, store ttl 1 / 3 s or LRU(1), 3 operations, 4 s")
    for cfg, inv, what in [
            ("DNSCheck_sanity_suffix.cfg", "WebOnlyCheckHosts", "the web side looks the id up without validating the suffix"),
            ("DNSCheck_sanity_key.cfg", "WebSeesOwnDNS", "all ids share one store key"),
            ("DNSCheck_sanity_stale.cfg", "FreshOnSameNode", "a repeated query does not replace the local entry"),
            ("DNSCheck_sanity_expiry.cfg", "GoneAfterExpiry", "the local cache never expires"),
            ("DNSCheck_sanity_ns.cfg", "WebSeesOwnDNS", "the other namespace's prefix is not applied"),
            ("DNSCheck_sanity_case.cfg", "WebAgreesWithDNS", "the web side does not fold the case of the Host header")]:
        design(c, "DNSCheck", cfg, expect_violation=inv, name="sanity: " + what)
    # concurrent requests: Check as two steps (local cache, then store) with anything in between
    design(c, "DNSCheck", "DNSCheck_conc_mc.cfg", name="two-step Check, 3 operations: own-id, 404 and local visibility hold")
    design(c, "DNSCheck", "DNSCheck_conc_fresh.cfg", expect_violation="FreshOnSameNode",
             name="two-step Check: of two overlapping queries for one id the older store write may land last "
                  "(freshness is promised for non-overlapping queries only)")


def run_remotekv(c, th):
    behs = c.tlc_sim("RemoteKV", "RemoteKV_sim.cfg", num=200 if th else 40, depth=40)
    inp = os.path.join(c.scratch, "ext3_kv_behs.json")
    json.dump(behs, open(inp, "w"))
    out, _ = c.go_harness("internal/remotekv", "^TestVerifEXT3KV$", files=["ext3_test.go"],
                          env={"VERIF_IN": inp, "VERIF_NRANDOM": 3000 if th else 300})
    ev = read_ndjson(out)
    bad = validate(c, "TraceRemoteKV", "TraceRemoteKV.cfg", ev, "kv")
    hits = sum(1 for e in ev if e["ev"] == "Get" and e["ok"])
    evicted = 0
    for sg in segments(ev):
        written = set()
        for _, e in sg:
            if e["ev"] == "Set":
                written.add((e["n"], e["k"]))
            elif e["ev"] == "Get" and not e["ok"] and (e["n"], e["k"]) in written and sg[0][1]["backing"] == "lru":
                evicted += 1
    if not bad and (hits < 50 or evicted < 10):
        raise Undecided("vacuous remotekv run: %d hits, %d reads of evicted keys" % (hits, evicted))
    for sg in segments(ev):
        ops = [(e["ev"], e["n"], e["k"]) for _, e in sg[1:]]
        c.count_case(("kv", sg[0][1]["backing"], sg[0][1]["cap"], ops),
                     nontrivial=any(e["ev"] == "Get" and e["ok"] for _, e in sg))
        c.cov["evaluations"] += len(sg) - 2
    c.sample({"remotekv": [(e["ev"], e["n"], e["k"], e["v"], e["ok"]) for e in ev[:12]]})
    per = {}
    for i, reasons in sorted(bad.items()):
        e = ev[i]
        seg = [x for x in ev if x["seg"] == e["seg"]]
        j = seg.index(e)
        sig = {"kind": "remotekv", "op": e["ev"], "backing": seg[0]["backing"], "reason": reasons[:80]}
        if not limit(c, per, sig):
            continue
        c.violation(sig,
                    "EXT3 remotekv: %s through namespace %r key %r on a %s store (cap %s) returned ok=%s value=%r "
                    "(raw key %r): %s; operations so far: %s" % (
                        e["ev"], e["n"], e["k"], seg[0]["backing"], seg[0]["cap"], e["ok"], e["v"], e["raw"], reasons,
                        [(x["ev"], x["n"], x["k"], x["v"], x["ok"]) for x in seg[1:j + 1]][-14:]),
                    {"segment": seg[:j + 1], "reasons": reasons})


def limit(c, per, sig, cap=3):
    """at most `cap` violations per signature; the rest is counted in the notes"""
    k = json.dumps(sig, sort_keys=True)
    per[k] = per.get(k, 0) + 1
    if per[k] == cap + 1:
        c.notes.append("more failing segments with signature %s not listed" % k)
    return per[k] <= cap


def describe(e):
    if e["ev"] == "SQ":
        return "concurrent Q node=%s %s -> %s" % (e["node"], e["namestr"], e["kind"])
    if e["ev"] == "SW":
        return "concurrent W node=%s Host=%r -> %s %s" % (e["node"], e["hosthdr"], e["status"], e["bodyraw"][:200])
    if e["ev"] == "Q":
        return "Q node=%s t=%s %s %s (%s) setFail=%s -> %s rcode=%s ans=%s raw=%r" % (
            e["node"], e["t"], e["namestr"], e["qt"], e["class"], e["setFail"], e["kind"], e["rcode"], e["ans"], e["raw"])
    if e["ev"] == "W":
        return "W node=%s t=%s Host=%r %s (%s) store=%s -> %s %s" % (
            e["node"], e["t"], e["hosthdr"], e["target"], e["class"], e["gm"], e["status"], e["bodyraw"][:200])
    if e["ev"] == "T":
        return "T +%ss" % e["d"]
    if e["ev"] == "F":
        return "F other namespace writes id %s" % "".join(e["id"])
    return "Reset par=%s domains=%s prefix=%r" % (e.get("par"), e.get("domstr"), e.get("prefix"))


def run_dnscheck(c, th):
    behs = c.tlc_sim("DNSCheck", "DNSCheck_sim.cfg", num=250 if th else 40, depth=60 if th else 45)
    inp = os.path.join(c.scratch, "ext3_dc_behs.json")
    json.dump(behs, open(inp, "w"))
    out, _ = c.go_harness("internal/dnscheck", "^TestVerifEXT3DNSCheck$", files=["ext3_test.go"],
                          rewrites=c.rewrite_clock([GOCACHE + "/cache.go"]),
                          env={"VERIF_IN": inp, "VERIF_NRANDOM": 1500 if th else 250})
    ev = read_ndjson(out)
    bad = validate(c, "TraceDNSCheck", "TraceDNSCheck.cfg", ev, "dnscheck")
    # free-running goroutines under the race detector
    out2, _ = c.go_harness("internal/dnscheck", "^TestVerifEXT3Stress$", files=["ext3_test.go"], race=True,
                           rewrites=c.rewrite_clock([GOCACHE + "/cache.go"]), env={"VERIF_NSTRESS": 40 if th else 6})
    ev2 = read_ndjson(out2)
    bad2 = validate(c, "TraceDNSCheck", "TraceDNSCheck.cfg", ev2, "stress")
    report_dnscheck(c, ev2, bad2)
    if not bad2 and sum(1 for e in ev2 if e["ev"] == "SW" and e["status"] == 200) < 500:
        raise Undecided("vacuous stress run")
    # vacuity guards
    n200 = sum(1 for e in ev if e["ev"] == "W" and e["status"] == 200)
    n404c = sum(1 for e in ev if e["ev"] == "W" and e["class"] == "check" and e["status"] == 404)
    nstore = sum(1 for e in ev if e["ev"] == "Q" and e["raw"])
    classes = set(e["class"] for e in ev if e["ev"] in ("Q", "W"))
    kinds = set(e["kind"] for e in ev if e["ev"] == "Q")
    want = {"check", "bare", "emptyid", "short", "long64", "long", "underscore", "badchar", "subdomain", "deeper", "glued",
            "suffixed", "otherdomain", "unrelated", "dotinid", "otherpath"}
    if not bad and (n200 < 100 or n404c < 30 or nstore < 100 or not want <= classes
                    or not {"ignore", "error", "answer"} <= kinds):
        raise Undecided("vacuous dnscheck run: %d web 200, %d expired/unknown 404, %d stores, missing classes %s, kinds %s" % (
            n200, n404c, nstore, sorted(want - classes), sorted(kinds)))
    for sg in segments(ev):
        ops = [(e["ev"], e.get("node"), e.get("namestr") or e.get("hosthdr"), e.get("d"), e.get("gm"), e.get("setFail"))
               for _, e in sg[1:]]
        c.count_case(("dc", json.dumps(sg[0][1]["par"]), ops), nontrivial=any(e["ev"] == "W" and e["status"] == 200 for _, e in sg))
        c.cov["evaluations"] += len(sg) - 2
    c.sample({"dnscheck": [describe(e) for e in ev[:10]]})
    report_dnscheck(c, ev, bad)


def report_dnscheck(c, ev, bad):
    per = {}
    for i, reasons in sorted(bad.items()):
        e = ev[i]
        seg = [x for x in ev if x["seg"] == e["seg"]]
        j = seg.index(e)
        casefold = e["ev"] == "W" and e["hosthdr"] != e["hosthdr"].lower()
        sig = {"kind": "dnscheck", "ev": e["ev"], "class": e["class"], "mixed_case_host": casefold, "reason": reasons[:80]}
        if not limit(c, per, sig):
            continue
        c.violation(sig, "EXT3 dnscheck: %s: %s; %s; history: %s" % (
                        describe(e), reasons, describe(seg[0]), [describe(x) for x in seg[1:j]][-12:]),
                    {"segment": seg[:j + 1], "reasons": reasons})


OBSERVATION = (
    "observation (not reported as a violation by default): the web side of dnscheck matches the Host header "
    "case-sensitively while the DNS side stores under the lower-cased id (agd.RequestInfo.Host): after a DNS query for "
    "AbCd-dnscheck.example.com, GET /dnscheck/test with Host: AbCd-dnscheck.example.com is answered 404, and "
    "Host: abcd-DNSCHECK.example.com does not match the check domain; upper-case letters are valid id characters per "
    "doc/http.md and validateRandomID.  Browsers lower-case hosts, so only other HTTP clients are affected.  The "
    "contract in DNSCheck.tla is case-insensitive (WebCaseSensitive = TRUE is the pinned tree, see "
    "DNSCheck_sanity_case.cfg); the harness sends lower-case hosts unless VERIF_EXT3_CASE=1.  A one-line repair is "
    "kept for reference in pending_fixes/EXT3-web-host-case.patch")


def run(c: Check):
    th = c.thorough
    try:
        queue_design(c, th)
        run_remotekv(c, th)
        run_dnscheck(c, th)
        collect(c)
    finally:
        POOL.shutdown(wait=True, cancel_futures=True)
    c.notes.append(OBSERVATION)
    if os.environ.get("VERIF_EXT3_CASE", "0") not in ("", "0"):
        c.notes.append("VERIF_EXT3_CASE set: mixed-case Host headers were sent")
    c.cov["rule"] = ("a case is one history (sequence of DNS queries, web requests, clock ticks and foreign writes on two "
                     "real dnscheck.RemoteKV nodes sharing one store; or a sequence of Set/Get calls on real "
                     "remotekv namespaces over one store); non-trivial = at least one web request answered 200 / "
                     "one Get that hit; distinct by the sequence of actions with their arguments; evaluations = "
                     "events validated")
    c.assumptions += [
        "the store behind remotekv.Interface with a TTL (Consul session / Redis EXPIRE / backend) is the harness's fake: a map "
        "whose entries are readable while now < written + ttl on the virtual clock; consulkv, rediskv and backendpb themselves "
        "are not driven.  The LRU store is the real remotekv.Cache over agdcache.LRU",
        "virtual clock: time.Now in patrickmn/go-cache (the local cache of dnscheck.RemoteKV) rewritten to VerifNow (fails closed); "
        "the local cache lifetime of 60 s (defaultCacheExp) is a constant of the code, not documented",
        "taken from the code where the documentation is silent: a malformed id under a check domain makes Check return an "
        "error (nothing stored, nothing answered); the bare check domain is answered like a check name and stores nothing; "
        "question types other than A / AAAA get an empty NOERROR answer; a failing store write does not fail the DNS query; "
        "a failing store read is 500, a rate-limited one 429; the first configured domain that matches decides",
        "agd.RequestInfo.Host is the lower-cased question name without the trailing dot (as ratelimitmw computes it); Check is "
        "called directly, not through the DNS pipeline",
        "freshness (the body is the LATEST query's record) is claimed for non-overlapping queries handled by the node that "
        "serves the web request and whose store write succeeded; under overlap only own-id is claimed (see DNSCheck_conc_*.cfg)",
        "TLC, SANY, CommunityModules Json; Go race detector for the free-running phase",
    ]


if __name__ == "__main__":
    main("EXT3", run)
