"""C08  Responses respect the transport's size limit and are truncated safely."""
import json
import os
import re
from vlib import Check, read_ndjson, write_ndjson, main, Undecided

PROTOS = ["dns-udp", "dns-tcp", "dot", "doh", "doq", "dnscrypt-udp", "dnscrypt-tcp"]
VIAS = ["udp", "tcp", "dot", "doh-post", "doh-get", "doh-json-wire", "doq", "dnscrypt-udp", "dnscrypt-tcp"]
TRACE_FIELDS = ("src p qopt qsize qdo qpad qka cfg hrec htc hdo full slack sent rcode hrcode wire parsed tc an rec "
                "opt osize over odo pad ka").split()
KIND = {
    "no reply to a valid handler response": "no-reply",
    "handler response replaced by an error reply": "error-reply",
    "reply does not decode": "undecodable",
    "reply larger than the transport's limit": "oversize",
    "records dropped without TC, or TC with a non-empty answer section": "unsafe-truncation",
    "records dropped although the complete reply fits": "needless-drop",
    "query OPT not echoed with the client's size, version 0 and DO": "opt-echo",
    "padding not exactly when asked on an encrypted transport": "padding",
    "keep-alive not exactly when asked on TCP/DoT": "keepalive",
}
SANITY = [
    # (cfg suffix, invariant, description, also in the quick tier)
    ("optsize0", "OPTEchoed", "OPT added by normalize carries size 0 and no DO", True),
    ("padafter", "WireLenWithinLimit", "padding appended after truncation", True),
    ("kaafter", "Replied", "keep-alive appended after truncation, packing refused", True),
    ("dcpartial", "TruncatedMeansEmptyAnswerAndTC", "DNSCrypt/TCP library truncation keeps a partial answer", True),
    ("ignorecfg", "WireLenWithinLimit", "UDP limit ignores the configured maximum", False),
    ("keepanswer", "TruncatedMeansEmptyAnswerAndTC", "TC set but answers kept", False),
    ("kaalways", "KeepAliveOnlyWhenAsked", "keep-alive to clients that did not send it", False),
    ("padplain", "PaddingOnlyWhenAsked", "padding on plain TCP", False),
]


def limit_of(e):
    """only for descriptions / vacuity book-keeping; the verdict uses TLC's OLimit"""
    if e["p"] in ("dns-udp", "dnscrypt-udp"):
        return max(512, min(e["qsize"] if e["qopt"] else 0, e["cfg"]))
    return 65535


def late_options(e):
    """client-requested options that the server appends to the reply's OPT"""
    o = []
    if e["qopt"] and e["qpad"] and e["p"] in ("dot", "doh", "doq"):
        o.append("pad")
    if e["qopt"] and e["qka"] and e["p"] in ("dns-tcp", "dot"):
        o.append("ka")
    return "+".join(o) or "none"


def _stack(c):
    """Replies that went through the complete handler stack (dnssvc.NewHandlers with the ECS cache) behind a
    real plain-DNS server: the layers above the server must not change what the server is told about the
    client (TraceSizeStack.tla).  The laboratory is C05's."""
    out, _ = c.go_harness("internal/dnssvc", "^TestVerifC05$", files=["c05_test.go"],
                          env={"VERIF_NHIST": 150 if c.thorough else 40}, timeout=1200)
    ev = [e for e in read_ndjson(out) if e.get("ev") == "Query" and e.get("sock")]
    big = [e for e in ev if e["wire"] > 0 and (e["tc"] or e["wire"] > 1300)]
    if len(ev) < 100 or len(big) < 10 or not any(e["opt"] == "zero" and e["qopt"] and e["qsize"] < 4096 for e in big):
        raise Undecided("stack-level size leg vacuous: %d socket queries, %d with a large answer" % (len(ev), len(big)))
    path = os.path.join(c.scratch, "c08stack.ndjson")
    write_ndjson(path, [{"qopt": e["qopt"], "qsize": e["qsize"], "cfg": 65535, "wire": e["wire"], "tc": e["tc"], "an": e["an"],
                         "ropt": e["ropt"], "roptsize": e["roptsize"], "roptver": e["roptver"]} for e in ev])
    r = c.tlc_trace("TraceSizeStack", "TraceSizeStack.cfg", path, timeout=600)
    if r.tuples("STUCK"):
        raise Undecided("stack-level size trace spec stuck")
    bad = r.tuples("NONCONF")
    c.cov["traces_validated_against_impl"] += len(ev) - len(bad)
    for e in ev:
        c.count_case(("stack", e["opt"], e["qopt"], e["qsize"], e["q"], e["tc"], e["wire"] > 512), nontrivial=e["wire"] > 512 or e["tc"])
    seen = set()
    for t in bad:
        e = ev[int(t[0]) - 1]
        for clause in re.findall(r'"([A-Za-z_]+)"', t[1]):
            if (clause, e["opt"]) in seen:
                continue
            seen.add((clause, e["opt"]))
            c.violation({"kind": "stack", "clause": clause, "ecs": e["opt"]},
                        "C08 %s behind the complete handler stack (plain DNS over UDP, ECS cache): query %s with OPT=%s size=%d "
                        "client-subnet option %s %s -> %d bytes on the wire, TC=%s, %d answers, reply OPT=%s size=%d version=%d" % (
                            clause, e["q"], e["qopt"], e["qsize"], e["opt"], e["optsub"], e["wire"], e["tc"], e["an"], e["ropt"],
                            e["roptsize"], e["roptver"]), e)


def run(c: Check):
    th = c.thorough
    c.tlc_mc("Normalize", "Normalize_mc.cfg", coverage=th,
             name="7 transports x 97 request EDNS settings x configured maxima x 540 handler responses (units: MIN=4, MAX=12)")
    c.cov["exhaustive"] = True
    for suf, inv, what, quick in SANITY:
        if quick or th:
            c.tlc_mc("Normalize", "Normalize_sanity_%s.cfg" % suf, expect_violation=inv, count=False,
                     name="sanity: %s" % what)

    n_pkg = 50000 if th else 2100
    n_sock = 2400 if th else 450
    out, _ = c.go_harness("internal/dnsserver", "^TestVerifC08Pkg$", files=["c08_test.go"], env={"VERIF_N": n_pkg},
                          timeout=1500)
    ev = read_ndjson(out)
    out2, _ = c.go_harness("internal/dnsserver", "^TestVerifC08Sock$", files=["c08_test.go", "c08sock_test.go", "vlab_test.go"],
                           env={"VERIF_SOCK_N": n_sock}, timeout=1500)
    ev2 = read_ndjson(out2)
    dead = [e for e in ev2 if "control=silent" in (e.get("note") or "")]
    if dead:
        raise Undecided("socket laboratory: %d queries AND their controls got no reply at all (%s): the laboratory, not the "
                        "server, is at fault" % (len(dead), sorted(set(e["via"] for e in dead))))
    if len(ev) < n_pkg or len(ev2) < n_sock + 9 + 30:
        raise Undecided("harness recorded %d + %d cases, expected %d + %d" % (len(ev), len(ev2), n_pkg, n_sock + 9 + 30))
    allev = ev + ev2

    # ---- vacuity: every class the property quantifies over must have been exercised
    for e in allev:
        e["_limit"] = limit_of(e)
    for p in PROTOS:
        pe = [e for e in ev if e["p"] == p]
        rel = set(e["full"] - e["_limit"] for e in pe if e["full"] >= 0)
        if not ({-1, 0} <= rel and any(d > 0 for d in rel)):
            raise Undecided("in-package %s: boundary cases limit-1 / limit / above not all hit (%s)" % (p, sorted(rel)[:10]))
        if not any(e["tc"] for e in pe) or not any(e["sent"] and not e["tc"] for e in pe):
            raise Undecided("in-package %s: truncated and untruncated replies not both seen" % p)
        if not any(not e["qopt"] for e in pe) or not any(e["qopt"] for e in pe):
            raise Undecided("in-package %s: requests with and without OPT not both seen" % p)
    if set(e["via"] for e in ev2) != set(VIAS):
        raise Undecided("socket level: transports exercised: %s" % sorted(set(e["via"] for e in ev2)))
    if len(set(e["_limit"] for e in ev if e["p"] == "dns-udp")) < 6:
        raise Undecided("plain UDP: fewer than 6 distinct limits exercised")
    if not any(e["pad"] for e in allev) or not any(e["ka"] for e in allev):
        raise Undecided("no padded / no keep-alive reply seen at all")
    kaown = [e for e in ev if e.get("hopt") == "v0ka" and e["p"] in ("dns-tcp", "dot")]
    if len(kaown) < 10 or not any(e["full"] - 65535 in (-1, 0, 1, 2) for e in kaown if e.get("full", -1) >= 0):
        raise Undecided("handler responses that bring their own keep-alive option: %d cases, none at the 64 KiB boundary" % len(kaown))
    for e in ev2:
        # controls: a tiny answer to a plain query can only get lost in the laboratory
        if not e["sent"] and e["hlen"] <= 300 and e["req"]["nsidlen"] <= 4:
            raise Undecided("socket level: small reply lost on %s (%s, note %r): laboratory problem" % (
                e["via"], e["name"], e["note"]))
    answered = sum(1 for e in ev2 if e["sent"])
    if answered < 0.8 * len(ev2):
        raise Undecided("socket level: only %d of %d queries answered" % (answered, len(ev2)))

    # ---- trace validation: TLC evaluates the clauses of Normalize.tla on every line
    path = os.path.join(c.scratch, "c08.ndjson")
    write_ndjson(path, [{k: e[k] for k in TRACE_FIELDS} for e in allev])
    r = c.tlc_trace("TraceNormalize", "TraceNormalize.cfg", path, timeout=1500)
    if r.tuples("STUCK"):
        raise Undecided("trace spec stuck: %s" % r.tuples("STUCK"))
    bad = r.tuples("NONCONF")
    if not r.ok and not bad:
        raise Undecided("trace validation failed without NONCONF lines:\n%s" % r.out[-3000:])
    c.cov["traces_validated_against_impl"] += len(allev) - len(bad)

    for e in allev:
        near = e["full"] < 0 or e["full"] > e["_limit"] - 64 - e["slack"]
        c.count_case(e["vec"], nontrivial=e["qopt"] or near)
    c.cov["rule"] = ("a case is one (transport, request EDNS settings, configured maximum, handler response) pushed "
                     "through the real write path (in-package: response writers with recording connections; socket "
                     "level: bytes received from the running servers); non-trivial = the query carries OPT or the "
                     "complete reply is within 64 bytes of the limit or above it; distinct by the abstract vector "
                     "(transport, size class, DO/padding/keep-alive/NSID, cfg class, response shape and OPT, "
                     "complete size relative to the limit: exact byte distance within +-40)")
    c.cov["c08"] = {"in_package": len(ev), "socket": len(ev2), "truncated": sum(1 for e in allev if e["tc"]),
                    "padded": sum(1 for e in allev if e["pad"]), "keepalive": sum(1 for e in allev if e["ka"]),
                    "udp_limits": sorted(set(e["_limit"] for e in allev if e["p"] in ("dns-udp", "dnscrypt-udp"))),
                    "at_limit_minus1_exact_plus1": [sum(1 for e in allev if e["full"] - e["_limit"] == d) for d in (-1, 0, 1)]}
    pick = lambda f: [dict((k, v) for k, v in e.items() if k in (
        "src", "via", "name", "req", "cfg", "hlen", "full", "wire", "tc", "an", "rec", "hrec", "opt", "osize", "pad", "ka"))
        for e in allev if f(e)][:1]
    c.sample(pick(lambda e: e["src"] == "pkg" and e["tc"]) + pick(lambda e: e["src"] == "sock" and e["pad"]) +
             pick(lambda e: e["src"] == "sock" and e["p"] == "dns-udp" and e["full"] == e["_limit"]) +
             pick(lambda e: e["ka"]))

    # DNSCrypt: the verdict is about the DNS message; the encrypted packet is recorded
    dce = [e for e in ev2 if e["p"] == "dnscrypt-udp" and e["sent"]]
    over = [e["enc"] - e["_limit"] for e in dce if e["enc"] > e["_limit"]]
    if over:
        c.notes.append("DNSCrypt/UDP: the DNS message stays within the limit, but the encrypted datagram (header 48 "
                       "bytes + padding to a multiple of 64; the library reserves only 64) exceeded the limit in %d of %d "
                       "replies by up to %d bytes; not claimed as a violation (third-party framing)" % (
                           len(over), len(dce), max(over)))

    seen = {}
    for t in bad:
        e = allev[int(t[0]) - 1]
        lim = int(t[1])
        reasons = re.findall(r'"([^"]+)"', t[2])
        for reason in reasons:
            kind = KIND.get(reason, reason[:40])
            # the signature names the failing case class; transports and levels on
            # which it was seen are listed in the description
            sig = {"kind": kind}
            if kind == "opt-echo":
                sig["handler_opt"] = e["hopt"]
                sig["reply_size_zero"] = e["osize"] == 0
            elif kind in ("no-reply", "error-reply", "oversize"):
                sig["late_options"] = late_options(e)
                if sig["late_options"] == "none":
                    sig["proto"] = e["p"]
                    sig["limit"] = lim
                    sig["nsid_payload"] = e["req"]["nsidlen"] > 0 and e["hopt"] == "none"
            else:
                sig["proto"] = e["p"]
            desc = ("C08 %s/%s %s: %s; request EDNS %s, configured max %d => limit %d; handler response %s "
                    "(%d records, packed %d bytes, OPT %s); complete reply would be %d bytes; observed: replies=%d "
                    "wire=%d attempt=%d rcode=%d TC=%s answers=%d records=%d OPT=%s size=%d version=%d DO=%s padding=%s "
                    "keep-alive=%s note=%r" % (
                        e["src"], e["via"], e["p"], reason, e["req"], e["cfg"], lim, e["name"], e["hrec"], e["hlen"],
                        e["hopt"], e["full"], e["nrep"], e["wire"], e["attempt"], e["rcode"], e["tc"], e["an"], e["rec"],
                        e["opt"], e["osize"], e["over"], e["odo"], e["pad"], e["ka"], e["note"]))
            key = json.dumps(sig, sort_keys=True)
            where = "%s/%s" % (e["src"], e["via"])
            if key in seen:
                seen[key][0] += 1
                seen[key][4].add(where)
                continue
            seen[key] = [1, sig, desc, {k: v for k, v in e.items() if not k.startswith("_")}, {where}]
    # one violation per failing case class (signature), with the first concrete case and the number of cases
    for n, sig, desc, replay, where in seen.values():
        c.violation(sig, "%s [%d case(s) of this class in this run, seen on %s]" % (desc, n, ", ".join(sorted(where))),
                    replay)
    _stack(c)
    c.assumptions += ["miekg/dns Pack/Unpack are trusted to measure and decode the replies",
                      "in-package: the DoQ case mirrors the last three statements of ServerQUIC.handleQUICStream "
                      "(normalizeTCP + packWithPrefix); the real DoQ path is exercised at socket level",
                      "DNSCrypt has no configured maximum (ConfigDNSCrypt has none): its configured maximum is 65535; "
                      "the limit is applied to the DNS message, the encrypted packet length is recorded only",
                      "socket level: advertised sizes <= 16384 (one loopback datagram carries at most 65507 bytes); "
                      "65535 and configured maximum 0 are covered in-package",
                      "TLC, SANY, CommunityModules Json"]


if __name__ == "__main__":
    main("C08", run)
