"""EXT4  (extension, not a listed property) traffic is dispatched to the listener that owns the
destination, and refreshed network policy replaces the old one atomically.

Two components: internal/bindtodevice (specs/BindToDevice.tla) and the rate-limit allow-list refresh
of internal/consul + ratelimit.DynamicAllowlist (specs/Allowlist.tla)."""
import json
import os
import re
from concurrent.futures import ThreadPoolExecutor

from vlib import Check, NCPU, read_ndjson, write_ndjson, main, Undecided

BTD_INV = ("TypeOK RegistrationSound DecisionConsistent DispatchBySubnet NoStrayDelivery NoLeak QueuesExact HoldExact "
           "NoLostWakeup WriteBackSource ClosedGetsNothing")


def validate(c, module, cfg, events, is_reset=lambda e: e.get("ev") == "Reset", max_fail=6, timeout=900):
    """Like Check.validate_segments, but also returns the NONCONF lines of the accepted rest:
    ([(segment, index, reason)], [(event, reasons)])."""
    segs, cur = [], []
    for e in events:
        if is_reset(e) and cur:
            segs.append(cur)
            cur = []
        cur.append(e)
    if cur:
        segs.append(cur)
    failures, nonconf, total = [], [], len(segs)
    while segs:
        flat = [e for sg in segs for e in sg]
        path = os.path.join(c.scratch, "trace_in.ndjson")
        write_ndjson(path, flat)
        r = c.tlc_trace(module, cfg, path, timeout=timeout)
        if r.ok:
            nonconf = [(flat[int(t[0]) - 1], t[1]) for t in r.tuples("NONCONF")]
            break
        if r.violated:
            ls = re.findall(r"^/\\ l = (\d+)", r.out, re.M)
            if not ls:
                raise Undecided("invariant %s violated but no l in trace:\n%s" % (r.violated, r.out[-3000:]))
            bad = int(ls[-1]) - 2
            reason = "invariant %s violated after this event" % r.violated
        else:
            st = r.tuples("STUCK")
            if not st:
                raise Undecided("trace rejected without STUCK/invariant:\n%s" % r.out[-3000:])
            bad = int(st[-1][0]) - 1
            reason = "no spec action explains this event"
        if bad < 0 or bad >= len(flat):
            raise Undecided("bad offending index %d of %d" % (bad, len(flat)))
        acc = 0
        for si, sg in enumerate(segs):
            if bad < acc + len(sg):
                failures.append((sg, bad - acc, reason))
                del segs[si]
                break
            acc += len(sg)
        if len(failures) >= max_fail:
            break
    c.cov["traces_validated_against_impl"] += total - len(failures)
    return failures, nonconf


def short(e, drop=("obs", "conc", "world", "src", "masked")):
    keep = {"Dispatch": ("dst", "res", "cl"), "Recv": ("pfx", "got"), "Close": ("pfx", "res"), "ListenConfig": ("pfx", "res"),
            "Add": ("res",)}.get(e.get("ev"), ())
    return {k: v for k, v in e.items() if k not in drop and (v not in ([], "", 0, False) or k in keep)}


def run_models(c):
    th = c.thorough
    w = max(2, min(4, NCPU // 4))
    jobs = [
        ("BindToDevice", "BindToDevice_mc.cfg", None, "tcp: 1 id, paths <= 1 bit, buffer 1, 3 registrations, 3 connections"),
        ("BindToDevice", "BindToDevice_mc_udp.cfg", None, "udp: the same with 2 datagrams and write-back"),
        ("BindToDevice", "BindToDevice_mc_reg.cfg", None, "registration table: 2 ids x 3 interface names x ports {0,53} x 7 prefixes x masked"),
        ("BindToDevice", "BindToDevice_sanity_first.cfg", "DispatchBySubnet", "sanity: first registered match instead of the narrowest subnet"),
        ("BindToDevice", "BindToDevice_sanity_closed.cfg", "DispatchBySubnet", "sanity: a closed listener's traffic falls through to the wider subnet"),
        ("BindToDevice", "BindToDevice_sanity_stray.cfg", "NoStrayDelivery", "sanity: unmatched destinations go to a default listener"),
        ("BindToDevice", "BindToDevice_sanity_leak.cfg", "NoLeak", "sanity: a connection for a closed listener is neither delivered nor closed"),
        ("BindToDevice", "BindToDevice_sanity_wb.cfg", "WriteBackSource", "sanity: responses leave with the socket's own address"),
        ("BindToDevice", "BindToDevice_sanity_dup.cfg", "RegistrationSound", "sanity: the same subnet registered twice"),
        ("Allowlist", "Allowlist_mc.cfg", None, "2 addresses, 1 reader (2 calls), 2 refreshes, one mode per class"),
        ("Allowlist", "Allowlist_sanity_merge.cfg", "RefreshIsTotal", "sanity: refresh merges into the old list"),
        ("Allowlist", "Allowlist_sanity_fail.cfg", "FailedRefreshKeepsOld", "sanity: a failed download empties the list"),
        ("Allowlist", "Allowlist_sanity_inplace.cfg", "ReadersSeeOldOrNew", "sanity: the list is emptied and refilled in two steps"),
        ("Allowlist", "Allowlist_sanity_pers.cfg", "PersistentKept", "sanity: a refresh replaces the configured entries as well"),
    ]
    if th:
        jobs += [("BindToDevice", "BindToDevice_mc_big.cfg", None, "tcp: paths <= 2 bits (7 prefixes), 3 registrations, 3 connections"),
                 ("Allowlist", "Allowlist_mc_big.cfg", None, "2 readers, all 10 modes")]

    def one(j):
        mod, cfg, exp, name = j
        nw = 1 if exp is not None else (max(w, min(8, NCPU // 2)) if "_big" in cfg else w)
        return c.tlc_mc(mod, cfg, workers=nw, expect_violation=exp, count=False, name=name, timeout=1500)

    with ThreadPoolExecutor(max_workers=4) as ex:
        res = list(ex.map(one, jobs))
    for j, r in zip(jobs, res):
        if j[2] is None:
            c.cov["states"] += r.distinct
            c.cov["transitions"] += r.generated


def run_btd(c):
    th = c.thorough
    behs = c.tlc_sim("BindToDevice", "BindToDevice_sim.cfg", num=150 if th else 25, depth=45)
    inp = os.path.join(c.scratch, "ext4_btd_behs.json")
    json.dump([[{k: s[k] for k in ("a", "id", "ifn", "port", "pfx", "masked", "k", "dst", "i", "buf")} for s in b]
               for b in behs], open(inp, "w"))
    out, _ = c.go_harness("internal/bindtodevice", "^TestVerifEXT4Stepper$",
                          env={"VERIF_IN": inp, "VERIF_NRANDOM": 1500 if th else 120})
    ev = read_ndjson(out)
    fails, _ = validate(c, "TraceBindToDevice", "TraceBindToDevice.cfg", ev, timeout=1500)
    # vacuity accounting (never a verdict)
    n = {"blocked": 0, "cpend": 0, "woke": 0, "closewoke": 0, "cdone": 0, "wb": 0, "regerr": set(), "udp": 0, "sim": 0}
    seg = []
    for e in ev + [{"ev": "Reset"}]:
        if e["ev"] == "Reset":
            if seg:
                c.count_case(seg, nontrivial=any(x[0] in ("Dispatch", "Recv", "Close") for x in seg))
            seg = []
            n["sim"] += e.get("src") == "sim"
            continue
        c.cov["evaluations"] += 1
        seg.append((e["ev"], e.get("id"), tuple(e.get("pfx", [])), e.get("k"), tuple(e.get("dst", [])), e.get("res"), e.get("got")))
        if e["ev"] == "Dispatch":
            n["blocked"] += e["res"] == "blocked"
            n["woke"] += bool(e["woke"])
            n["udp"] += e["k"] == "udp"
        elif e["ev"] == "Close":
            n["closewoke"] += bool(e["woke"])
        elif e["ev"] == "Recv":
            n["cdone"] += bool(e["cdone"])
        elif e["ev"] == "WriteBack":
            n["wb"] += 1
        elif e["ev"] in ("Add", "ListenConfig") and e["res"] != "ok":
            n["regerr"].add(e["res"])
        n["cpend"] += any(o["cpend"] for o in e.get("obs", []))
    c.cov["evaluations"] -= len(c.distinct)
    need = {"iface", "dup_id", "dup_addr", "no_listener", "unmasked", "not_in_iface", "dup"}
    c.notes.append("bindtodevice stepper: %d events, %d worlds from TLC behaviours; blocked dispatches %d, states with a "
                   "pending Close %d, receivers woken by a dispatch %d / by a Close %d, pending Closes completed %d, "
                   "write-backs %d, refusal classes %s" % (len(ev), n["sim"], n["blocked"], n["cpend"], n["woke"],
                                                           n["closewoke"], n["cdone"], n["wb"], sorted(n["regerr"])))
    for sg, idx, reason in fails:
        e = sg[idx]
        prev = sg[idx - 1] if idx else {}
        hint = ""
        if (e.get("ev") == "Dispatch" and e.get("k") == "tcp" and not e.get("cl") and e.get("res") == "returned" and
                not e.get("woke") and prev.get("obs") is not None and
                sum(o["qlen"] for o in e.get("obs", [])) == sum(o["qlen"] for o in prev.get("obs", []))):
            hint = " [the connection was neither handed to a listener nor closed]"
        acts = [(x["ev"], x.get("id", ""), x.get("pfx", []), x.get("k", ""), x.get("dst", []), x.get("res", ""), x.get("got", 0))
                for x in sg[1:idx + 1]]
        c.violation({"kind": "bindtodevice-trace", "ev": e.get("ev"), "k": e.get("k", ""), "reason": reason.split()[0],
                     "undelivered_left_open": bool(hint)},
                    "EXT4 bindtodevice trace rejected (%s) at event %d %s%s; world: %s; concrete: %s; err: %s; "
                    "last actions %s; observed %s" % (reason, idx, json.dumps(short(e)), hint, sg[0].get("conc"),
                                                      e.get("conc"), e.get("err"), acts[-8:], json.dumps(e.get("obs"))[:600]),
                    {"segment": sg[:idx + 1], "offending_index": idx, "reason": reason})
    if not fails:
        miss = need - n["regerr"]
        if miss or n["blocked"] < 3 or n["cpend"] < 1 or n["woke"] < 3 or n["closewoke"] < 1 or n["wb"] < 3 or n["udp"] < 20:
            raise Undecided("bindtodevice stepper vacuous: %s missing refusal classes %s" % (
                {k: v for k, v in n.items() if k != "regerr"}, sorted(miss)))
    c.sample({"bindtodevice_first_events": [short(e) for e in ev[:10]]})

    # the registration decision table, all call sequences of the given depth on the real Manager
    out1, _ = c.go_harness("internal/bindtodevice", "^TestVerifEXT4RegTable$", env={"VERIF_DEPTH": 3 if th else 2})
    ev1 = read_ndjson(out1)
    tfails, _ = validate(c, "TraceBindToDevice", "TraceBindToDevice.cfg", ev1, timeout=1500)
    calls = [e for e in ev1 if e["ev"] in ("Add", "ListenConfig")]
    if len(calls) < 3000:
        raise Undecided("registration table vacuous: %d calls" % len(calls))
    seq = []
    for e in ev1:
        if e["ev"] == "Reset":
            seq = []
        elif e["ev"] in ("Add", "ListenConfig"):
            seq.append((e["ev"], e["id"], e["ifn"], e["port"], tuple(e["pfx"]), e["masked"]))
            c.count_case(("table", tuple(seq)), nontrivial=len(seq) > 1)
    c.notes.append("bindtodevice registration table: %d calls in %d sequences, outcomes %s" % (
        len(calls), sum(1 for e in ev1 if e["ev"] == "Reset"),
        {k: sum(1 for e in calls if e["res"] == k) for k in sorted(set(e["res"] for e in calls))}))
    for sg, idx, reason in tfails:
        e = sg[idx]
        c.violation({"kind": "bindtodevice-registration", "ev": e.get("ev"), "res": e.get("res", "")},
                    "EXT4 bindtodevice registration table: %s at call %d of %s: %s answered %r (%s); contract: see "
                    "AddReasons / LCReasons of specs/BindToDevice.tla" % (
                        reason, idx, [x.get("conc") for x in sg[1:idx + 1]], e.get("conc"), e.get("res"), e.get("err")),
                    {"segment": sg[:idx + 1], "offending_index": idx, "reason": reason})

    # the real read loops over loop-back
    out2, _ = c.go_harness("internal/bindtodevice", "^TestVerifEXT4E2E$",
                           env={"VERIF_NWORLDS": 15 if th else 3, "VERIF_PER": 30 if th else 16})
    ev2 = read_ndjson(out2)
    path = os.path.join(c.scratch, "ext4_e2e.ndjson")
    write_ndjson(path, ev2)
    r = c.tlc_trace("TraceBindToDevice", "TraceBindToDevice.cfg", path)
    if r.tuples("STUCK") or (not r.ok and not r.tuples("NONCONF")):
        raise Undecided("E2E trace run failed:\n%s" % r.out[-3000:])
    bad = r.tuples("NONCONF")
    c.cov["traces_validated_against_impl"] += len(ev2) - len(bad)
    lines = [e for e in ev2 if e["ev"] == "E2E"]
    nd = sum(1 for e in lines if e["has"])
    if len(lines) < 20 or nd < 8 or len(lines) - nd < 2 or {"tcp", "udp"} - set(e["k"] for e in lines):
        raise Undecided("E2E vacuous: %d lines, %d delivered" % (len(lines), nd))
    if any("never arrived" in e.get("conc", "") for e in lines) and not bad:
        raise Undecided("E2E: a marker item was lost although every line conforms")
    for e in lines:
        c.count_case(("e2e", e["k"], tuple(map(tuple, e["lcs"])), tuple(e["dst"])), nontrivial=len(e["lcs"]) > 1)
    c.notes.append("bindtodevice end to end (Manager.Start, real listenTCP/listenUDP on loop-back): %d items, %d delivered" % (
        len(lines), nd))
    c.sample({"bindtodevice_e2e": lines[:3]})
    for t in bad:
        e = ev2[int(t[0]) - 1]
        c.violation({"kind": "bindtodevice-e2e", "k": e.get("k", ""), "reason": t[1][:70]},
                    "EXT4 bindtodevice through the real read loops: %s: %s to abstract destination %s, subnets registered "
                    "for the listener %s -> delivered=%s to %s laddr=%s closed=%s reply source=%s; %s" % (
                        t[1], e.get("k"), e.get("dst"), e.get("lcs"), e.get("has"), e.get("pfx"), e.get("laddr"),
                        e.get("closed"), e.get("src"), e.get("conc")), e)


def run_allowlist(c):
    th = c.thorough
    behs = c.tlc_sim("Allowlist", "Allowlist_sim.cfg", num=120 if th else 20, depth=22)
    inp = os.path.join(c.scratch, "ext4_al_behs.json")
    json.dump([[{"a": s["a"], "mode": s["mode"], "list": s["list"], "pers": s["pers"]} for s in b] for b in behs], open(inp, "w"))
    out, _ = c.go_harness("internal/consul", "^TestVerifEXT4Refresh$", env={"VERIF_IN": inp, "VERIF_NRANDOM": 400 if th else 40})
    ev = read_ndjson(out)
    fails, _ = validate(c, "TraceAllowlist", "TraceAllowlist.cfg", ev)
    modes = {}
    for e in ev:
        if e["ev"] == "Refresh":
            modes.setdefault(e["mode"], set()).add(e["ret"])
            c.count_case(("refresh", e["mode"], tuple(e["list"]), tuple(e["pers"]), e["ret"]), nontrivial=e["mode"] != "ok")

    def describe(sg, idx, reason, where):
        e = sg[idx]
        hist = [(x["mode"], x["list"], x["ret"], x["probe"]) for x in sg[1:idx + 1] if x["ev"] == "Refresh"]
        c.violation({"kind": "allowlist-trace", "where": where, "mode": e.get("mode", ""), "ret": e.get("ret", ""),
                     "reason": reason.split()[0]},
                    "EXT4 allow-list trace rejected (%s, %s) at event %d: endpoint mode %s served %s, Refresh returned %s "
                    "(%s), allowed afterwards %s (representatives disagree: %s, outsiders allowed: %s), configured %s, "
                    "collected=%s status=%s; %s; history (mode, list, ret, allowed) %s" % (
                        reason, where, idx, e.get("mode"), e.get("list"), e.get("ret"), e.get("err"), e.get("probe"),
                        e.get("mixed"), e.get("stray"), sg[0].get("pers"), e.get("collected"), e.get("status"),
                        e.get("conc"), hist[-6:]),
                    {"segment": sg[:idx + 1], "offending_index": idx, "reason": reason})

    for sg, idx, reason in fails:
        describe(sg, idx, reason, "sequential")
    if not fails:
        want = {"ok", "http500", "garbage", "notarray", "badaddr", "truncated", "reset", "null", "noaddr", "trailing"}
        if want - set(modes):
            raise Undecided("allow-list harness vacuous: modes never served %s" % sorted(want - set(modes)))
    c.notes.append("allow-list: outcomes per endpoint mode %s" % {k: sorted(v) for k, v in sorted(modes.items())})
    c.sample({"allowlist_first_events": [short(e) for e in ev[:6]]})

    # concurrent readers under the race detector
    try:
        out2, _ = c.go_harness("internal/consul", "^TestVerifEXT4Concurrent$", race=True,
                               env={"VERIF_NWORLDS": 10 if th else 3, "VERIF_NREFRESH": 60 if th else 30,
                                    "VERIF_KEEPREADS": 600 if th else 250})
    except Undecided as e:
        msg = str(e)
        i = msg.find("WARNING: DATA RACE")
        if i < 0:
            raise
        block = msg[i:i + 5000]
        accs = block.split("Previous ")
        tops = [[ln.strip() for ln in a.splitlines() if ln.strip().startswith("/")][:3] for a in accs[:2]]
        if any("zz_verif_" in f for t in tops for f in t[:1]):
            raise
        c.violation({"kind": "allowlist-data-race",
                     "where": (tops[0][0] if tops and tops[0] else "").split(" ")[0].replace(os.environ.get("VERIF_REPO", "/repo"), "")},
                    "EXT4 data race between IsAllowed and a refresh (race detector): a reader can see a half-updated "
                    "list:\n" + block[:2500], {"report": block})
        return
    ev2 = read_ndjson(out2)
    stats = [e for e in ev2 if e["ev"] == "ReaderStat"]
    ev2 = [e for e in ev2 if e["ev"] != "ReaderStat"]
    fails2, nonconf = validate(c, "TraceAllowlist", "TraceAllowlist.cfg", ev2, timeout=1500)
    for sg, idx, reason in fails2:
        describe(sg, idx, reason, "concurrent")
    for e, why in nonconf:
        c.violation({"kind": "allowlist-read", "got": e["got"], "reason": why[:60]},
                    "EXT4 concurrent IsAllowed(%s = abstract %d) answered %s between refresh %d completed and refresh %d "
                    "started: %s" % (e["conc"], e["ip"], e["got"], e["v0"], e["v1"], why), e)
    reads = [e for e in ev2 if e["ev"] == "Read"]
    total = sum(s["total"] for s in stats)
    tight = sum(1 for e in reads if e["v0"] == e["v1"])
    if not fails2 and (len(reads) < 500 or total < 5000 or tight < 20):
        raise Undecided("concurrent allow-list run vacuous: %d reads recorded of %d, %d between two refreshes" % (
            len(reads), total, tight))
    for e in reads:
        c.count_case(("read", e["world"], e["r"], e["ip"], e["got"], e["v0"], e["v1"]), nontrivial=e["v0"] != e["v1"])
    c.notes.append("allow-list concurrent: %d IsAllowed calls during %d refreshes, %d judged (%d overlapping a refresh)" % (
        total, sum(1 for e in ev2 if e["ev"] == "Refresh"), len(reads), len(reads) - tight))


def run(c: Check):
    run_models(c)
    run_btd(c)
    run_allowlist(c)
    c.cov["rule"] = ("cases: (a) one action sequence (Add/ListenConfig/Start/Dispatch/Recv/Close/WriteBack/Shutdown) on a "
                     "real bindtodevice.Manager with concretised subnets and destinations, non-trivial = traffic was "
                     "dispatched; (b) one connection/datagram through the real listenTCP/listenUDP loops over loop-back, "
                     "non-trivial = more than one subnet registered; (c) one allow-list refresh (endpoint mode, served "
                     "list, configured list), non-trivial = not the plain well-formed answer; (d) one concurrent IsAllowed, "
                     "non-trivial = it overlapped a refresh")
    c.assumptions += [
        "abstraction: destinations and subnets are bit paths below a base network (2..16 address bits per path bit); "
        "the concretiser and its inverse (60 lines of Go) are part of the trusted base",
        "bindtodevice: SO_BINDTODEVICE itself is not exercised (needs privileges): the stepper calls processConn / readUDP "
        "per item, the end-to-end run replaces the interface listener's net.ListenConfig by one that sets "
        "IP_RECVORIGDSTADDR only; IPv6 destinations are driven through processConn only (the loops listen on 0.0.0.0)",
        "goroutine states from runtime.Stack identify calls parked in a channel operation or mutex; the harness acts at "
        "quiescent points only",
        "where the documents are silent the code's reading is taken: a full channel makes the read loop (and a Close of "
        "that endpoint) wait; items queued before a Close stay available to that endpoint's own Accept/Read; Manager.Add "
        "does not look at the port value",
        "allow-list: a JSON null, records without an Address and garbage behind the array are not covered by "
        "doc/externalhttp.md: either outcome is admitted as long as it is all or nothing",
        "concurrent allow-list reads are judged by interval (refreshes completed before the call .. started before the "
        "return); tearing inside DynamicAllowlist is left to the Go race detector",
        "TLC, SANY, CommunityModules Json",
    ]


if __name__ == "__main__":
    main("EXT4", run)
