"""EXT9  (extension, not a listed property) the GeoIP database: look-ups, the subnet chosen for a
location, and the refresh of the two databases with their derived maps and caches.

Component: internal/geoip (specs/GeoIP.tla, TraceGeoIP.tla)."""
import json
import os
import random
import re
import shutil
from concurrent.futures import ThreadPoolExecutor

from vlib import Check, NCPU, SEED, VERIF, read_ndjson, write_ndjson, main, Undecided, log

HFILES = ["ext9_test.go"]
PKG = "internal/geoip"

HOOK_DECL = '''package geoip

import (
	"context"
	"sync"
)

// VerifHook is called in front of every f.mu.Lock() of file.go ("lock:Ln") and after the matching
// Unlock ("unlocked:Ln"); nil outside the EXT9 harness.
var VerifHook func(ctx context.Context, site string)

func verifLock(ctx context.Context, mu *sync.RWMutex, site string) {
	if h := VerifHook; h != nil {
		h(ctx, "lock:"+site)
	}
	mu.Lock()
}

func verifUnlock(ctx context.Context, mu *sync.RWMutex, site string) {
	mu.Unlock()
	if h := VerifHook; h != nil {
		h(ctx, "unlocked:"+site)
	}
}
'''


def gate_rewrites(c):
    """every `f.mu.Lock(); defer f.mu.Unlock()` of file.go becomes a gate, numbered in source order:
    named after what the critical section assigns: "loc" (location maps), "ctry" (country maps), "db" (the two databases)"""
    n = [0]

    def rep(m):
        n[0] += 1
        nxt = m.group(2)
        site = ("loc" if "LocationSubnets" in nxt else "ctry" if "CountrySubnets" in nxt else
                "db" if "f.asn" in nxt or "f.country" in nxt else "X%d" % n[0])
        return '%sverifLock(ctx, f.mu, "%s")\n%sdefer verifUnlock(ctx, f.mu, "%s")\n\n%s' % (
            m.group(1), site, m.group(1), site, nxt)
    ov = c.rewrite_sub(PKG + "/file.go", [(r"^(\t+)f\.mu\.Lock\(\)\n\1defer f\.mu\.Unlock\(\)\n\n([^\n]*)", rep, 3)],
                       decl=HOOK_DECL)
    return ov, n[0]


def validate(c, events, files_path, max_fail=8, timeout=1500):
    """Check.validate_segments with the reasons: returns ([(segment, index, reason, why)], [(event, reasons)]).
    A segment (world) whose trace is stuck or breaks an invariant is removed and the rest validated again."""
    shutil.copy(files_path, os.path.join(c.specdir, "geoip_files.ndjson"))
    segs, cur = [], []
    for e in events:
        if e.get("ev") == "Reset" and cur:
            segs.append(cur)
            cur = []
        cur.append(e)
    if cur:
        segs.append(cur)
    failures, nonconf, total = [], [], len(segs)
    while segs:
        flat = [e for sg in segs for e in sg]
        path = os.path.join(c.scratch, "trace_in.ndjson")
        write_ndjson(path, flat)
        r = c.tlc_trace("TraceGeoIP", "TraceGeoIP.cfg", path, timeout=timeout, heap="6g")
        if r.ok:
            nonconf = [(flat[int(t[0]) - 1], t[1]) for t in r.tuples("NONCONF")]
            break
        why = ""
        if r.violated:
            ls = re.findall(r"^/\\ l = (\d+)", r.out, re.M)
            if not ls:
                raise Undecided("invariant %s violated but no l in trace:\n%s" % (r.violated, r.out[-3000:]))
            bad = int(ls[-1]) - 2
            reason = "invariant %s violated after this event" % r.violated
        else:
            st = r.tuples("STUCK")
            if not st:
                raise Undecided("trace rejected without STUCK/invariant:\n%s" % r.out[-3000:])
            bad = int(st[-1][0]) - 1
            reason = "no spec action explains this event"
            ws = [t[1] for t in r.tuples("WHY") if int(t[0]) == bad + 1]
            why = "; ".join(dict.fromkeys(ws))[:1500]
        if bad < 0 or bad >= len(flat):
            raise Undecided("bad offending index %d of %d" % (bad, len(flat)))
        acc = 0
        for si, sg in enumerate(segs):
            if bad < acc + len(sg):
                failures.append((sg, bad - acc, reason, why))
                del segs[si]
                break
            acc += len(sg)
        if len(failures) >= max_fail:
            break
    c.cov["traces_validated_against_impl"] += total - len(failures)
    return failures, nonconf


def N(b, n, asn=0, ctry="", cont="", sub="", astr=False):
    return {"b": list(b), "n": n, "asn": asn, "astr": astr, "ctry": ctry, "cont": cont, "sub": sub}


def run(c: Check):
    ov, nsites = gate_rewrites(c)
    w = {"id": "dev", "src": "hand", "hostcap": 2, "ipcap": 3, "tops": [["US", 7], ["DE", 8]], "alltop": [7, 8],
         "files": [
             {"kind": "A", "mode": "ok", "nets": [N([10, 0, 0, 0], 24, 7), N([10, 0, 1, 0], 24, 8), N([10, 2, 0, 0], 16, 7)]},
             {"kind": "C", "mode": "ok", "nets": [N([10, 0, 0, 0], 23, 0, "US", "NA", "WA"), N([10, 2, 0, 0], 16, 0, "DE", "EU")]},
             {"kind": "C", "mode": "ok", "nets": [N([10, 0, 0, 0], 24, 0, "A1", "", "")]},
         ],
         "steps": [{"a": "Put", "kind": "A", "v": 1}, {"a": "Put", "kind": "C", "v": 2},
                   {"a": "RStart", "r": "r1"}, {"a": "RSwapLoc", "r": "r1"}, {"a": "RSwapCtry", "r": "r1"}, {"a": "RJoin", "r": "r1"},
                   {"a": "RSwapDB", "r": "r1"},
                   {"a": "Data", "host": "h1", "ip": [10, 0, 0, 1]},
                   {"a": "Data", "host": "", "ip": [10, 0, 0, 9]},
                   {"a": "Data", "host": "h1", "zero": True},
                   {"a": "Subnet", "l": {"ctry": "US", "sub": "WA", "asn": 7}, "fam": 4},
                   {"a": "Subnet", "lp": 1, "fam": 4},
                   {"a": "Put", "kind": "C", "v": 3},
                   {"a": "RStart", "r": "r1"}, {"a": "RSwapLoc", "r": "r1"}, {"a": "RSwapCtry", "r": "r1"}, {"a": "RJoin", "r": "r1"},
                   {"a": "AutoData", "cnt": 10}, {"a": "AutoSubnet", "cnt": 10},
                   ]}
    inp = os.path.join(c.scratch, "ext9_in.json")
    json.dump({"worlds": [w]}, open(inp, "w"))
    files = os.path.join(c.scratch, "ext9_files.ndjson")
    out, so = c.go_harness(PKG, "^TestVerifEXT9Stepper$", files=HFILES, rewrites=ov, env={"VERIF_IN": inp, "VERIF_FILES": files})
    ev = read_ndjson(out)
    fails, nonconf = validate(c, ev, files)
    for sg, idx, reason, why in fails:
        print("FAIL", idx, reason, why, json.dumps(sg[idx])[:600])
    for e, why in nonconf:
        print("NONCONF", why[:400], e.get("conc"))
    raise Undecided("dev")


if __name__ == "__main__":
    main("EXT9", run)
