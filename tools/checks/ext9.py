"""EXT9  (extension, not a listed property) the GeoIP database: look-ups, the subnet chosen for a
location, and the refresh of the two databases with their derived maps and caches.

Component: internal/geoip (specs/GeoIP.tla, TraceGeoIP.tla)."""
import json
import os
import random
import re
import shutil
from concurrent.futures import ThreadPoolExecutor

from vlib import Check, NCPU, SEED, VERIF, read_ndjson, write_ndjson, main, Undecided, log

HFILES = ["ext9_test.go"]
PKG = "internal/geoip"

HOOK_DECL = '''package geoip

import (
	"context"
	"sync"
)

// VerifHook is called in front of every f.mu.Lock() of file.go ("lock:Ln") and after the matching
// Unlock ("unlocked:Ln"); nil outside the EXT9 harness.
var VerifHook func(ctx context.Context, site string)

func verifLock(ctx context.Context, mu *sync.RWMutex, site string) {
	if h := VerifHook; h != nil {
		h(ctx, "lock:"+site)
	}
	mu.Lock()
}

func verifUnlock(ctx context.Context, mu *sync.RWMutex, site string) {
	mu.Unlock()
	if h := VerifHook; h != nil {
		h(ctx, "unlocked:"+site)
	}
}
'''


def gate_rewrites(c):
    """every `f.mu.Lock(); defer f.mu.Unlock()` of file.go becomes a gate, numbered in source order:
    named after what the critical section assigns: "loc" (location maps), "ctry" (country maps), "db" (the two databases)"""
    n = [0]

    def rep(m):
        n[0] += 1
        nxt = m.group(2)
        site = ("loc" if "LocationSubnets" in nxt else "ctry" if "CountrySubnets" in nxt else
                "db" if "f.asn" in nxt or "f.country" in nxt else "X%d" % n[0])
        return '%sverifLock(ctx, f.mu, "%s")\n%sdefer verifUnlock(ctx, f.mu, "%s")\n\n%s' % (
            m.group(1), site, m.group(1), site, nxt)
    ov = c.rewrite_sub(PKG + "/file.go", [(r"^(\t+)f\.mu\.Lock\(\)\n\1defer f\.mu\.Unlock\(\)\n\n([^\n]*)", rep, 1)],
                       decl=HOOK_DECL)
    return ov, n[0]


def validate(c, events, files_path, max_fail=8, timeout=1500):
    """Check.validate_segments with the reasons: returns ([(segment, index, reason, why)], [(event, reasons)]).
    A segment (world) whose trace is stuck or breaks an invariant is removed and the rest validated again."""
    shutil.copy(files_path, os.path.join(c.specdir, "geoip_files.ndjson"))
    segs, cur = [], []
    for e in events:
        if e.get("ev") == "Reset" and cur:
            segs.append(cur)
            cur = []
        cur.append(e)
    if cur:
        segs.append(cur)
    failures, nonconf, total = [], [], len(segs)
    if not hasattr(c, "ext9_steps"):
        c.ext9_steps = {}
    while segs:
        flat = [e for sg in segs for e in sg]
        path = os.path.join(c.scratch, "trace_in.ndjson")
        write_ndjson(path, flat)
        r = c.tlc_trace("TraceGeoIP", "TraceGeoIP.cfg", path, timeout=timeout, heap="6g")
        if r.ok:
            nonconf = [(flat[int(t[0]) - 1], t[1]) for t in r.tuples("NONCONF")]
            st = getattr(c, "ext9_steps", {})
            for t in r.tuples("STEP"):
                k = t[1].strip('"')
                st[k] = st.get(k, 0) + 1
            st["(shared)"] = st.get("(shared)", 0) + len(r.tuples("SHARED"))
            c.ext9_steps = st
            break
        why = ""
        if r.violated:
            ls = re.findall(r"^/\\ l = (\d+)", r.out, re.M)
            if not ls:
                raise Undecided("invariant %s violated but no l in trace:\n%s" % (r.violated, r.out[-3000:]))
            bad = int(ls[-1]) - 2
            reason = "invariant %s violated after this event" % r.violated
        else:
            st = r.tuples("STUCK")
            if not st:
                raise Undecided("trace rejected without STUCK/invariant:\n%s" % r.out[-3000:])
            bad = int(st[-1][0]) - 1
            reason = "no spec action explains this event"
            ws = [t[1] for t in r.tuples("WHY") if int(t[0]) == bad + 1]
            why = "; ".join(dict.fromkeys(ws))[:1500]
        if bad < 0 or bad >= len(flat):
            raise Undecided("bad offending index %d of %d" % (bad, len(flat)))
        acc = 0
        for si, sg in enumerate(segs):
            if bad < acc + len(sg):
                failures.append((sg, bad - acc, reason, why))
                del segs[si]
                break
            acc += len(sg)
        if len(failures) >= max_fail:
            break
    c.cov["traces_validated_against_impl"] += total - len(failures)
    return failures, nonconf


def N(b, n, asn=0, ctry="", cont="", sub="", astr=False):
    return {"b": list(b), "n": n, "asn": asn, "astr": astr, "ctry": ctry, "cont": cont, "sub": sub}


CONT = {"US": "NA", "RU": "EU", "CN": "AS", "IN": "AS", "DE": "EU", "FR": "EU", "JP": "AS", "AU": "OC", "": ""}
SUBS = {"US": ["WA", "CA", ""], "RU": ["MOW", "SPE", ""], "CN": ["22", ""], "IN": ["MH", ""]}
BADMODES = ["missing", "garbage", "empty", "badmeta"]


def v6(*hextets):
    h = list(hextets) + [0] * (8 - len(hextets))
    return [x for w in h for x in (w >> 8, w & 255)]


def mapped(b):
    return [0] * 10 + [255, 255] + list(b)


def refresh(r="r1"):
    return [{"a": a, "r": r} for a in ("RStart", "RSwapLoc", "RSwapCtry", "RJoin", "RSwapDB")]


def put(kind, v):
    return {"a": "Put", "kind": kind, "v": v}


def data(ip=None, host="", zero=False, zone=""):
    return {"a": "Data", "host": host, "ip": list(ip or []), "zero": zero, "zone": zone}


def subnet(ctry="", sub="", asn=0, fam=4, lp=0):
    return {"a": "Subnet", "l": {"ctry": ctry, "cont": "", "sub": sub, "asn": asn}, "lp": lp, "fam": fam}


# ------------------------------------------------------------------ generated worlds (behaviours from TLC)
def gen_world(rng, wid):
    """a random small world: two or three versions of each database with networks of many lengths that move
    between countries and autonomous systems, one unloadable version of each, addresses, hosts, locations"""
    ctrs = rng.sample(["US", "RU", "CN", "IN"], 2) + rng.sample(["DE", "FR", "JP", "AU"], 2)
    asns = rng.sample([7, 8, 9, 11, 12], 3)
    x = rng.randrange(1, 200)
    v4 = [([10, x, 0, 0], 16), ([10, x, 0, 0], 24), ([10, x, 1, 0], 24), ([10, x, 2, 0], 23), ([10, x, 4, 0], 22), ([10, x, 8, 16], 28),
          ([10, x, 8, 0], 25), ([10, x + 1, 0, 0], 16), ([10, x + 1, 7, 0], 24), ([10, x + 1, 7, 9], 32), ([11, 0, 0, 0], 8),
          ([10, x, 9, 0], 24)]
    v6n = [(v6(0x2001, 0xdb8, x), 48), (v6(0x2001, 0xdb8, x, 0x100), 56), (v6(0x2001, 0xdb8, x, 0x200), 64), (v6(0x2001, 0xdb9), 32),
           (v6(0x2001, 0xdb8, x, 0x300), 60)]
    files, versA, versC = [], [], []

    def ctry_rec(b, n):
        c = rng.choice(ctrs + [""]) if rng.random() < 0.9 else rng.choice(ctrs)
        sub = rng.choice(SUBS.get(c, [""]))
        rec = N(b, n, 0, c, CONT[c], sub)
        if sub and rng.random() < 0.4:
            rec["sub2"] = "X2"   # a second, less significant subdivision: never the one that is used
        return rec
    for k in range(rng.choice([2, 2, 3])):
        nets = [N(b, n, rng.choice(asns + [0, 99])) for b, n in rng.sample(v4, rng.randrange(3, 7))]
        nets += [N(b, n, rng.choice(asns + [99])) for b, n in rng.sample(v6n, rng.randrange(1, 3))]
        files.append({"kind": "A", "mode": "ok", "nets": nets})
        versA.append(len(files))
    files.append({"kind": "A", "mode": rng.choice(BADMODES), "nets": []})
    versA.append(len(files))
    for k in range(rng.choice([2, 2, 3])):
        nets = [ctry_rec(b, n) for b, n in rng.sample(v4, rng.randrange(3, 7))]
        nets += [ctry_rec(b, n) for b, n in rng.sample(v6n, rng.randrange(1, 4))]
        if rng.random() < 0.3:
            nets.append(N([10, x, 9, 0], 24, 0, rng.choice(ctrs), "ZZ", ""))   # a continent code NewContinent rejects
        files.append({"kind": "C", "mode": "ok", "nets": nets})
        versC.append(len(files))
    files.append({"kind": "C", "mode": rng.choice(BADMODES), "nets": []})
    versC.append(len(files))
    tops = [[c, rng.choice(asns)] for c in rng.sample(ctrs, rng.randrange(1, 4))]
    alltop = sorted(set(a for _, a in tops) | set(rng.sample(asns, 1)))
    addrs = [[10, x, 0, 1], [10, x, 0, 200], [10, x, 1, 1], mapped([10, x, 0, 7]), [10, x, 8, 17], [10, x, 8, 130], [10, x + 1, 7, 9],
             [10, x, 9, 5], [11, 2, 3, 4], [9, 9, 9, 9], v6(0x2001, 0xdb8, x, 0x100, 1), v6(0x2001, 0xdb8, x, 0x1ff, 2),
             v6(0x2001, 0xdb8, x, 0x200, 3), v6(0x2001, 0xdb9, 5), [0] * 12 + [10, x, 0, 1]]
    addrs = rng.sample(addrs, 7)
    locs = []
    for _ in range(5):
        c = rng.choice(ctrs + ["", "BR"])
        locs.append({"ctry": c, "cont": "", "sub": rng.choice(SUBS.get(c, [""])), "asn": rng.choice(asns + [0, 99, 25159])})
    return {"id": wid, "src": "sim", "hostcap": rng.choice([0, 1, 2]), "ipcap": rng.choice([1, 2, 3]), "tops": tops, "alltop": alltop,
            "files": files, "versA": versA, "versC": versC, "addrs": addrs, "hosts": ["", "h1", "h2"], "locs": locs}


def tla_str(s):
    return '"%s"' % s


def tla_seq(l):
    return "<<" + ", ".join(str(x) for x in l) + ">>"


def tla_net(n):
    return '[b |-> %s, n |-> %d, asn |-> %d, astr |-> %s, ctry |-> "%s", cont |-> "%s", sub |-> "%s"]' % (
        tla_seq(n["b"]), n["n"], n["asn"], "TRUE" if n["astr"] else "FALSE", n["ctry"], n["cont"], n["sub"])


def tla_loc(l):
    return '[ctry |-> "%s", cont |-> "%s", sub |-> "%s", asn |-> %d]' % (l["ctry"], l.get("cont", ""), l["sub"], l["asn"])


def render_worlds(worlds):
    """GeoIP_simw.tla: the generated worlds as constants of GeoIP.tla.  The versions of all worlds form one
    sequence WFiles; every world names its own by index."""
    files, confs, off = [], [], 0
    for w in worlds:
        for f in w["files"]:
            files.append('  [kind |-> "%s", mode |-> "%s", nets |-> <<%s>>]' % (
                f["kind"], f["mode"], ", ".join(tla_net(n) for n in f["nets"])))
        tops = " @@ ".join('("%s" :> %d)' % (c, a) for c, a in w["tops"]) or "[c \\in {} |-> 0]"
        confs.append('  [id |-> "%s", hostcap |-> %d, ipcap |-> %d, tops |-> %s, alltop |-> {%s}, versA |-> {%s}, versC |-> {%s},\n'
                     '   disk0 |-> [A |-> %d, C |-> %d], addrs |-> {%s},\n   hosts |-> {%s}, locs |-> {%s}]' % (
                         w["id"], w["hostcap"], w["ipcap"], tops, ", ".join(map(str, w["alltop"])),
                         ", ".join(str(off + v) for v in w["versA"]), ", ".join(str(off + v) for v in w["versC"]),
                         off + w["versA"][0], off + w["versC"][0], ", ".join(tla_seq(a) for a in w["addrs"]), ", ".join(tla_str(h) for h in w["hosts"]),
                         ", ".join(tla_loc(l) for l in w["locs"])))
        w["off"] = off
        off += len(w["files"])
    return ("---- MODULE GeoIP_simw ----\n(* generated by tools/checks/ext9.py: the worlds of this run *)\nEXTENDS GeoIP\n\n"
            "WFiles == <<\n%s\n>>\n\nWConfs == {\n%s\n}\n====\n" % (",\n".join(files), ",\n".join(confs)))


def behaviours_to_worlds(worlds, behs):
    """one world instance per behaviour: the configuration and files of its world, the steps TLC chose"""
    byid = {w["id"]: w for w in worlds}
    res, acts = [], {}
    for bi, b in enumerate(behs):
        w = byid[b[0]["w"]]
        steps = []
        for s in b:
            acts[s["a"]] = acts.get(s["a"], 0) + 1
            if s["a"] == "Put":
                steps.append(put(s["kind"], s["v"] - w["off"]))
            elif s["a"] == "Data":
                steps.append(data(s["ip"], s["host"], s["zero"]))
            elif s["a"] == "Subnet":
                steps.append({"a": "Subnet", "l": s["l"], "lp": s["lp"], "fam": s["fam"]})
            else:
                steps.append({"a": s["a"], "r": s["r"]})
        res.append({"id": "%s#%d" % (w["id"], bi), "src": "sim", "hostcap": w["hostcap"], "ipcap": w["ipcap"], "tops": w["tops"],
                    "alltop": w["alltop"], "files": w["files"], "disk0": [w["versA"][0], w["versC"][0]], "steps": steps})
    return res, acts


# ------------------------------------------------------------------ scripted worlds
SMALL_TOPS = [["AU", 1221], ["JP", 2516], ["US", 7922]]
SHIP = {"isp": "GeoIP2-ISP-Test.mmdb", "city": "GeoIP2-City-Test.mmdb", "country": "GeoIP2-Country-Test.mmdb"}


def shipped(kind, name):
    return {"kind": kind, "mode": "shipped", "path": SHIP[name], "nets": []}


def scripted_worlds(th):
    ws = []
    nd, ns = (6000, 1500) if th else (260, 160)
    base = [shipped("A", "isp"), shipped("C", "city"), shipped("C", "country")]
    ws.append({"id": "shipped-table", "src": "table", "hostcap": 3, "ipcap": 100000, "tops": SMALL_TOPS, "alltop": [1221, 2516, 7922],
               "files": base,
               "steps": [put("A", 1), put("C", 2)] + refresh() + [{"a": "AutoData", "cnt": nd}, {"a": "AutoSubnet", "cnt": ns},
                                                                  put("C", 3)] + refresh() +
                        [{"a": "AutoData", "cnt": nd // 2}, {"a": "AutoSubnet", "cnt": ns // 2}]})
    ws.append({"id": "shipped-evict", "src": "table", "hostcap": 1, "ipcap": 3, "tops": SMALL_TOPS, "alltop": [1221, 2516, 7922],
               "files": base,
               "steps": [put("A", 1), put("C", 3)] + refresh() + [{"a": "AutoData", "cnt": nd // 2}, {"a": "AutoSubnet", "cnt": 40}]})
    ws.append({"id": "shipped-default-tables", "src": "table", "hostcap": 2, "ipcap": 1000, "default": True, "tops": [], "alltop": [],
               "files": base,
               "steps": [put("A", 1), put("C", 2)] + refresh() + [{"a": "AutoData", "cnt": nd // 4}, {"a": "AutoSubnet", "cnt": ns},
                                                                  subnet("RU", "MOW", 25159, 4), subnet("US", "NY", 0, 4),
                                                                  subnet("DE", "", 25159, 4)]})
    ws.append({"id": "shipped-crosskind", "src": "table", "hostcap": 2, "ipcap": 50, "tops": SMALL_TOPS, "alltop": [1221, 2516, 7922],
               "files": [shipped("A", "city"), shipped("C", "country"), shipped("A", "isp")],
               "steps": [put("A", 1), put("C", 2)] + refresh() + [{"a": "AutoData", "cnt": 80}, {"a": "AutoSubnet", "cnt": 40},
                                                                  put("A", 3)] + refresh() + [{"a": "AutoData", "cnt": 80}]})
    # load failures of every kind, for either file, after a good refresh
    a1 = {"kind": "A", "mode": "ok", "nets": [N([10, 0, 0, 0], 24, 7), N([10, 0, 1, 0], 24, 8), N([10, 2, 0, 0], 16, 7),
                                               N(v6(0x2001, 0xdb8), 32, 8)]}
    a2 = {"kind": "A", "mode": "ok", "nets": [N([10, 0, 0, 0], 24, 8), N([10, 0, 1, 0], 28, 7), N([10, 2, 0, 0], 16, 9)]}
    c1 = {"kind": "C", "mode": "ok", "nets": [N([10, 0, 0, 0], 23, 0, "US", "NA", "WA"), N([10, 2, 0, 0], 16, 0, "DE", "EU"),
                                               N(v6(0x2001, 0xdb8), 32, 0, "DE", "EU")]}
    c2 = {"kind": "C", "mode": "ok", "nets": [N([10, 0, 0, 0], 24, 0, "DE", "EU"), N([10, 0, 1, 0], 24, 0, "US", "NA", "NY"),
                                               N([10, 2, 0, 0], 16, 0, "US", "NA", "WA")]}
    tops = [["US", 7], ["DE", 8]]
    probe = [data([10, 0, 0, 1], "h1"), data([10, 0, 1, 1], "h2"), data([10, 0, 0, 2]), data(host="h1", zero=True),
             data(v6(0xfe80, 0, 0, 0, 0, 0, 0, 1), "h2", zone="eth0"), data(v6(0x2001, 0xdb8, 0, 0, 0, 0, 0, 1)),
             subnet("US", "WA", 7), subnet("US", "CA", 0), subnet("DE", "", 0), subnet("DE", "", 0, 6), subnet("FR", "", 9)]
    for mode in BADMODES:
        for kind in "AC":
            bad = {"kind": kind, "mode": mode, "nets": []}
            ws.append({"id": "loadfail-%s-%s" % (kind, mode), "src": "scripted", "hostcap": 2, "ipcap": 4, "tops": tops, "alltop": [7, 8],
                       "files": [a1, a2, c1, c2, bad],
                       "steps": [put("A", 1), put("C", 3)] + refresh() + probe +
                                [put(kind, 5), put("C" if kind == "A" else "A", 4 if kind == "A" else 2)] + refresh() + probe +
                                [put(kind, 2 if kind == "A" else 4)] + refresh() + probe})
    # a first refresh that fails, then a good one
    ws.append({"id": "first-refresh-fails", "src": "scripted", "hostcap": 2, "ipcap": 4, "tops": tops, "alltop": [7, 8],
               "files": [a1, c1], "steps": [put("A", 1)] + refresh() + [put("C", 2)] + refresh() + probe})
    # an address whose continent code is not valid: Data reports the error and caches nothing
    cz = {"kind": "C", "mode": "ok", "nets": [N([10, 0, 0, 0], 24, 0, "US", "ZZ", "WA"), N([10, 0, 1, 0], 24, 0, "DE", "EU")]}
    ws.append({"id": "bad-continent", "src": "scripted", "hostcap": 2, "ipcap": 4, "tops": tops, "alltop": [7, 8],
               "files": [a1, cz], "steps": [put("A", 1), put("C", 2)] + refresh() +
               [data([10, 0, 0, 1], "h1"), data([10, 0, 0, 1], "h1"), data(host="h1", zero=True), data([10, 0, 1, 1], "h1"),
                data(host="h1", zero=True)]})
    return ws


def candidate_worlds():
    """worlds in which the pinned code is known to leave the contract (see the findings of the report)"""
    ws = []
    tops = [["US", 7], ["DE", 8]]
    a1 = {"kind": "A", "mode": "ok", "nets": [N([10, 0, 0, 0], 24, 7), N([10, 0, 1, 0], 24, 8), N([10, 2, 0, 0], 16, 7)]}
    a2 = {"kind": "A", "mode": "ok", "nets": [N([10, 0, 0, 0], 24, 8), N([10, 0, 1, 0], 24, 7), N([10, 3, 0, 0], 16, 7)]}
    c1 = {"kind": "C", "mode": "ok", "nets": [N([10, 0, 0, 0], 23, 0, "US", "NA", "WA"), N([10, 2, 0, 0], 16, 0, "DE", "EU")]}
    c2 = {"kind": "C", "mode": "ok", "nets": [N([10, 0, 0, 0], 24, 0, "DE", "EU"), N([10, 0, 1, 0], 24, 0, "US", "NA", "NY"),
                                               N([10, 3, 0, 0], 16, 0, "FR", "EU")]}
    probe = [data([10, 0, 0, 1], "h1"), subnet("US", "WA", 7), subnet("US", "CA", 0), subnet("DE", "", 0), subnet("FR", "", 9)]
    # scans that fail: an unknown country code in the new country database (both scans fail, or only the country
    # scan when no ASN network lies there), an ASN record that cannot be decoded (only the location scan fails)
    cbad = {"kind": "C", "mode": "ok", "nets": [N([10, 0, 0, 0], 24, 0, "A1", "", ""), N([10, 2, 0, 0], 16, 0, "DE", "EU")]}
    cbad2 = {"kind": "C", "mode": "ok", "nets": [N([10, 77, 0, 0], 24, 0, "A1", "", ""), N([10, 2, 0, 0], 16, 0, "FR", "EU")]}
    abad = {"kind": "A", "mode": "ok", "nets": [N([10, 0, 0, 0], 24, 7), N([10, 9, 0, 0], 24, 8, astr=True)]}
    for wid, files, puts in (("scanfail-both", [a1, c1, cbad], [put("C", 3)]), ("scanfail-country", [a1, c1, cbad2], [put("C", 3)]),
                             ("scanfail-location", [a1, c1, abad], [put("A", 3)])):
        ws.append({"id": wid, "src": "candidate", "hostcap": 2, "ipcap": 4, "tops": tops, "alltop": [7, 8], "files": files,
                   "steps": [put("A", 1), put("C", 2)] + refresh() + probe + puts + refresh() + probe})
    # two refreshes that overlap (periodic worker and the debug API): r1 publishes its maps, r2 runs completely, r1 swaps
    ws.append({"id": "overlap", "src": "candidate", "hostcap": 2, "ipcap": 4, "tops": tops, "alltop": [7, 8], "files": [a1, a2, c1, c2],
               "steps": [put("A", 1), put("C", 3)] + refresh() + probe + [put("A", 2), {"a": "RStart", "r": "r1"}, put("C", 4),
                         {"a": "RStart", "r": "r2"}, {"a": "RSwapLoc", "r": "r1"}, {"a": "RSwapCtry", "r": "r1"}, {"a": "RJoin", "r": "r1"}] +
                        refresh("r2")[1:] + [{"a": "RSwapDB", "r": "r1"}] + probe})
    # the top ASN of a country whose keys carry country and subdivision; the network for ASN 25159
    at = {"kind": "A", "mode": "ok", "nets": [N([10, 0, 0, 0], 24, 7), N([10, 2, 0, 0], 24, 7), N([10, 4, 0, 0], 24, 9)]}
    ct = {"kind": "C", "mode": "ok", "nets": [N([10, 0, 0, 0], 24, 0, "US", "NA", "WA"), N([10, 2, 0, 0], 24, 0, "DE", "EU"),
                                               N([10, 4, 0, 0], 24, 0, "US", "NA", "CA"), N([10, 6, 0, 0], 24, 0, "RU", "EU", "MOW")]}
    at2 = {"kind": "A", "mode": "ok", "nets": [N([10, 0, 0, 0], 24, 7), N([10, 4, 0, 0], 24, 9)]}
    ws.append({"id": "special-country-top", "src": "candidate", "hostcap": 2, "ipcap": 4, "tops": [["US", 7], ["RU", 9]], "alltop": [7, 9],
               "files": [at, ct, at2],
               "steps": [put("A", 1), put("C", 2)] + refresh() +
                        [subnet("US", "WA", 7), subnet("US", "NY", 0), subnet("US", "NY", 5), subnet("RU", "MOW", 25159), subnet("RU", "SPE", 0),
                         subnet("DE", "", 25159), subnet("US", "NY", 0, 6), put("A", 3)] + refresh() +
                        [subnet("US", "NY", 0), subnet("US", "WA", 7), {"a": "AutoSubnet", "cnt": 60}]})
    # a narrow network that replaces a broad one
    an = {"kind": "A", "mode": "ok", "nets": [N([10, 0, 0, 0], 8, 7), N([11, 0, 0, 0], 30, 7), N(v6(0x2001, 0xdb8), 32, 7),
                                               N(v6(0x2001, 0xdb9, 1, 2, 3), 80, 7)]}
    cn = {"kind": "C", "mode": "ok", "nets": [N([10, 0, 0, 0], 8, 0, "DE", "EU"), N([11, 0, 0, 0], 30, 0, "DE", "EU")]}
    ws.append({"id": "narrow-network", "src": "candidate", "hostcap": 2, "ipcap": 4, "tops": [["DE", 7]], "alltop": [7], "files": [an, cn],
               "steps": [put("A", 1), put("C", 2)] + refresh() + [subnet("DE", "", 7), subnet("DE", "", 0), subnet("DE", "", 7, 6)]})
    return ws


def run_models(c):
    th = c.thorough
    jobs = [
        ("GeoIP_mc.cfg", None, 8, "one refresher, 3 versions of each database (one unloadable, one whose scans fail), 3 addresses, 2 answers"),
        ("GeoIP_mc_serial.cfg", None, 4, "two refreshers that exclude one another (coverage of every action recorded)"),
        ("GeoIP_mc_late.cfg", None, 4, "the maps published together with the databases (a repaired File): also MapsNeverAhead"),
        ("GeoIP_sanity_noclear.cfg", "CacheAgreesWithDB", 1, "sanity: the swap leaves the caches alone"),
        ("GeoIP_sanity_swap2.cfg", "ReadersSeeOneVersion", 1, "sanity: the two databases are swapped in two critical sections"),
        ("GeoIP_sanity_failclears.cfg", "FailedRefreshKeepsOld", 1, "sanity: a failed refresh publishes / drops derived maps"),
        ("GeoIP_sanity_mutate.cfg", "LocationsAreValues", 1, "sanity: SubnetByLocation writes the top ASN into its argument"),
        ("GeoIP_sanity_foreigntop.cfg", "SubnetContract", 1, "sanity: the fall-back takes the top ASN of another country"),
        ("GeoIP_sanity_overlap.cfg", "QuiescentConsistent", 1, "sanity: two refreshers without exclusion (as the code)"),
        ("GeoIP_sanity_window.cfg", "MapsNeverAhead", 1, "the window: derived maps are published before the databases"),
        ("GeoIP_sanity_len.cfg", "DesiredLength", 1, "sanity: a narrow network replaces a broad one (distance rule)"),
    ]
    if th:
        jobs.append(("GeoIP_mc_big.cfg", None, 12, "6 addresses (IPv4, mapped, IPv6, unknown), two hosts, 2 answers, 2 refreshes"))

    def one(j):
        cfg, exp, nw, name = j
        r = c.tlc_mc("GeoIP_mc", cfg, workers=nw, expect_violation=exp, count=False, name=name, timeout=2400,
                     coverage=cfg == "GeoIP_mc_serial.cfg")
        if cfg == "GeoIP_mc_serial.cfg":
            # every action of the specification is taken (the two halves of the defective swap belong to a sanity variant)
            acts = set(a for a, _, _ in r.zero_coverage()) & {"PutFile", "DataIP", "DataHost", "Subnet", "RStart", "RSwapLoc",
                                                              "RSwapCtry", "RJoin", "RSwapDB"}
            if acts:
                raise Undecided("actions never taken in the exhaustive run: %s" % sorted(acts))
        return r
    with ThreadPoolExecutor(max_workers=3) as ex:
        res = list(ex.map(one, jobs))
    for j, r in zip(jobs, res):
        if j[1] is None:
            c.cov["states"] += r.distinct
            c.cov["transitions"] += r.generated
    c.notes.append("GeoIP_sanity_window: with the code's order of publication (location maps, country maps, then both "
                   "databases and the caches) a reader can combine an answer of the old databases with the new derived maps; "
                   "the documentation does not promise otherwise (observation)")


def concurrent_world():
    a1 = {"kind": "A", "mode": "ok", "nets": [N([10, 0, 0, 0], 24, 7), N([10, 0, 1, 0], 24, 8), N([10, 2, 0, 0], 16, 7),
                                               N(v6(0x2001, 0xdb8), 32, 8)]}
    a2 = {"kind": "A", "mode": "ok", "nets": [N([10, 0, 0, 0], 24, 8), N([10, 0, 1, 0], 24, 7), N([10, 2, 0, 0], 16, 9),
                                               N(v6(0x2001, 0xdb8), 32, 7)]}
    a3 = {"kind": "A", "mode": "ok", "nets": [N([10, 0, 0, 0], 24, 9), N([10, 0, 1, 0], 24, 9), N([10, 2, 0, 0], 16, 8)]}
    c1 = {"kind": "C", "mode": "ok", "nets": [N([10, 0, 0, 0], 23, 0, "US", "NA", "WA"), N([10, 2, 0, 0], 16, 0, "DE", "EU"),
                                               N(v6(0x2001, 0xdb8), 32, 0, "DE", "EU")]}
    c2 = {"kind": "C", "mode": "ok", "nets": [N([10, 0, 0, 0], 24, 0, "DE", "EU"), N([10, 0, 1, 0], 24, 0, "FR", "EU"),
                                               N([10, 2, 0, 0], 16, 0, "US", "NA", "CA"), N(v6(0x2001, 0xdb8), 32, 0, "JP", "AS")]}
    c3 = {"kind": "C", "mode": "ok", "nets": [N([10, 0, 0, 0], 23, 0, "JP", "AS"), N([10, 2, 0, 0], 16, 0, "FR", "EU")]}
    steps = [data(ip) for ip in ([10, 0, 0, 1], [10, 0, 0, 77], [10, 0, 1, 1], [10, 2, 3, 4], mapped([10, 0, 0, 5]), [9, 9, 9, 9],
                                 v6(0x2001, 0xdb8, 1), v6(0x2001, 0xdb8, 0, 1), [10, 2, 200, 1])]
    steps += [subnet("US", "WA", 7), subnet("US", "CA", 0), subnet("DE", "", 0), subnet("DE", "", 8), subnet("FR", "", 9),
              subnet("JP", "", 0, 6), subnet("DE", "", 0, 6), subnet("US", "NY", 9)]
    return {"id": "concurrent", "src": "concurrent", "hostcap": 2, "ipcap": 3, "tops": [["US", 7], ["DE", 8]], "alltop": [7, 8, 9],
            "files": [a1, a2, a3, {"kind": "A", "mode": "garbage", "nets": []}, c1, c2, c3, {"kind": "C", "mode": "missing", "nets": []}],
            "steps": steps}


def short(e):
    return {k: v for k, v in e.items() if k not in ("obs", "chg", "tops", "alltop")}


def run(c: Check):
    th = c.thorough
    rng = random.Random(SEED * 7919 + 13)
    ov, nsites = gate_rewrites(c)
    if nsites != 3:
        c.notes.append("file.go has %d critical sections under the write lock (the pinned tree has 3)" % nsites)
    worlds = [gen_world(rng, "w%d" % (i + 1)) for i in range(6 if th else 3)]
    open(os.path.join(c.specdir, "GeoIP_simw.tla"), "w").write(render_worlds(worlds))
    with ThreadPoolExecutor(max_workers=3) as ex:
        fut_models = ex.submit(run_models, c)
        # the concurrent run needs no TLC until it is judged: start it beside the rest
        cinp = os.path.join(c.scratch, "ext9_conc_in.json")
        json.dump({"worlds": [concurrent_world()]}, open(cinp, "w"))
        cfiles = os.path.join(c.scratch, "ext9_conc_files.ndjson")

        def conc():
            return c.go_harness(PKG, "^TestVerifEXT9Concurrent$", files=HFILES, rewrites=ov, race=True,
                                env={"VERIF_IN": cinp, "VERIF_FILES": cfiles, "VERIF_NREFRESH": 120 if th else 40,
                                     "VERIF_KEEPREADS": 1500 if th else 300})
        fut_conc = ex.submit(conc)
        behs = c.tlc_sim("GeoIP_simw", "GeoIP_sim.cfg", num=160 if th else 36, depth=60 if th else 45)
        sim_worlds, acts = behaviours_to_worlds(worlds, behs)
        cand = candidate_worlds()
        nmain = len(sim_worlds) + len(scripted_worlds(th))
        allw = sim_worlds + scripted_worlds(th) + cand
        inp = os.path.join(c.scratch, "ext9_in.json")
        json.dump({"worlds": allw}, open(inp, "w"))
        files = os.path.join(c.scratch, "ext9_files.ndjson")
        out, so = c.go_harness(PKG, "^TestVerifEXT9Stepper$", files=HFILES, rewrites=ov, env={"VERIF_IN": inp, "VERIF_FILES": files})
        ev = read_ndjson(out)
        # the worlds in which the pinned code is known to leave the contract are validated on their own (a rejected
        # world costs one more TLC run over everything validated with it)
        resets = [i for i, e in enumerate(ev) if e["ev"] == "Reset"]
        cut = resets[nmain] if nmain < len(resets) else len(ev)
        fails, nonconf, steps = judge(c, ev[:cut], files)
        f2, n2, _ = judge(c, ev[cut:], files)
        fails += f2
        nonconf += n2
        # ---- concurrent readers under the race detector
        try:
            cout, _ = fut_conc.result()
            cev = read_ndjson(cout)
        except Undecided as e:
            msg = str(e)
            i = msg.find("WARNING: DATA RACE")
            if i < 0:
                raise
            block = msg[i:i + 5000]
            tops = [[ln.strip() for ln in a.splitlines() if ln.strip().startswith("/")][:3] for a in block.split("Previous ")[:2]]
            if any("zz_verif_" in f for t in tops for f in t[:1]):
                raise
            where = (tops[0][0] if tops and tops[0] else "").split(" ")[0].replace(os.environ.get("VERIF_REPO", "/repo"), "")
            c.violation({"kind": "data-race", "where": re.sub(r":\d+$", "", where)},
                        "EXT9 data race between readers (Data / SubnetByLocation) and Refresh, reported by the race detector:\n"
                        + block[:2500], {"report": block})
            cev = None
        if cev is not None:
            cfails, cnonconf, _ = judge(c, cev, cfiles, concurrent=True)
            fails += cfails
            nonconf += cnonconf
            reads = [e for e in cev if e["ev"] in ("CRead", "CSubnet")]
            over = [e for e in reads if e["v1"] > e["v0"]]
            end = [e for e in cev if e["ev"] == "CEnd"][0]
            okref = sum(1 for o in end["outcomes"] if o == "")
            if len(over) < 40 or okref < 10 or len(end["outcomes"]) - okref < 5 or \
                    len([e for e in over if e["ev"] == "CSubnet"]) < 5:
                raise Undecided("concurrent run vacuous: %d recorded calls, %d overlapping a refresh, %d refreshes (%d good)" % (
                    len(reads), len(over), len(end["outcomes"]), okref))
            for e in reads:
                c.count_case(("conc", e["ev"], e.get("ip"), e.get("l"), e.get("fam"), e.get("got"), e.get("sn"), e["pairs"]),
                             nontrivial=e["v1"] > e["v0"])
            c.notes.append("concurrent (-race): %d Data / SubnetByLocation calls of 6 readers during %d refreshes (%d failing), %d "
                           "judged, %d of them overlapping a refresh" % (end["total"], len(end["outcomes"]),
                                                                         len(end["outcomes"]) - okref, len(reads), len(over)))
        fut_models.result()
    report(c, ev, fails, nonconf, steps, acts, cand)
    c.cov["rule"] = ("cases: (a) one Data call (address, host, databases in force -> answer, pointer shared or fresh), non-trivial = "
                     "the answer is not the empty location; (b) one SubnetByLocation call (location, family, derived maps -> prefix), "
                     "non-trivial = a non-zero prefix; (c) one refresh step with the state it leaves (databases, the four derived "
                     "maps, caches); (d) one concurrent call judged against the versions in force during it, non-trivial = it "
                     "overlapped a refresh")
    c.assumptions += [
        "the databases are real MMDB files: the three the repository ships, and synthetic ones written by a 150-line writer in the "
        "harness (format 2.0, IPv6 tree with IPv4 below ::/96, 24-bit records); every synthetic file passes maxminddb.Reader.Verify; "
        "the content the specification works on is what maxminddb.Reader.Networks lists (an independent path through the library), "
        "and the network a looked-up address lies in (LookupNetwork) is passed as a hint that TLC verifies (Contains) before use",
        "a refresh is stopped in front of every f.mu.Lock() of file.go by a build-time overlay (verifLock / verifUnlock, named after "
        "what the critical section assigns); readers are called at those quiescent points only; the concurrent leg runs the "
        "unmodified locking under the race detector and is judged by interval (refreshes completed before the call .. started "
        "before its return)",
        "pointer identity is observed (answers are numbered by first appearance and kept alive), so a cache hit is told from a fresh "
        "look-up and the exact LRU order of both caches is part of the specification (gcache: Get and Set move to the front)",
        "validity of country / continent codes: the synthetic databases use the codes A1, A2, O1, ZZZ (not ISO 3166-1 alpha-2, not "
        "user-assigned) and ZZ as invalid ones; all other codes they contain are valid",
        "where the documentation is silent the code's reading is specified: the host cache is written on IP-cache misses only; an "
        "address no database knows gets a non-nil empty Location; among networks at the same distance from the desired length the "
        "last one in database order wins; the derived maps are published before the databases",
        "TLC, SANY, CommunityModules Json",
    ]


def judge(c, ev, files, concurrent=False):
    fails, nonconf = validate(c, ev, files)
    return fails, nonconf, c.ext9_steps


PENDING_FILE = os.path.join(VERIF, "pending_fixes", "EXT9-known-findings.json")


def report(c, ev, fails, nonconf, steps, acts, cand):
    pending = []
    if os.environ.get("VERIF_EXT9_PENDING") and os.path.exists(PENDING_FILE):
        pending = json.load(open(PENDING_FILE))["findings"]
    shown = set()

    def viol(sig, desc, replay):
        pk = next((k for k in pending if all(sig.get(a) == b for a, b in k["match"].items())), None)
        if pk is not None:
            if pk["id"] not in shown:
                log("PENDING-FINDING: property=EXT9 %s (%s)" % (pk["what"][:200], pk["id"]))
                shown.add(pk["id"])
                c.notes.append("pending finding %s seen: %s" % (pk["id"], desc[:300]))
            return
        c.violation(sig, desc, replay)

    # ---- rejected worlds
    for sg, idx, reason, why in fails:
        e = sg[idx]
        world = sg[0].get("world", "?")
        hist = [(x["ev"], x.get("r") or x.get("kind") or x.get("conc") or "", x.get("res", "")) for x in sg[1:idx + 1]][-10:]
        if reason.startswith("invariant"):
            inv = reason.split()[1]
            viol({"kind": "refresh-invariant", "invariant": inv},
                 "EXT9 world %s: %s (event %d: %s); after the step the File holds databases (%s, %s), location maps %s / %s, "
                 "country maps %s / %s (nil: %s); last steps %s" % (
                     world, reason, idx, json.dumps(short(e))[:300], e["obs"]["dba"], e["obs"]["dbc"],
                     json.dumps(e["obs"].get("loc4"))[:200], json.dumps(e["obs"].get("loc6"))[:100],
                     json.dumps(e["obs"].get("c4"))[:200], json.dumps(e["obs"].get("c6"))[:100], e["obs"].get("nilmaps"), hist),
                 {"segment": sg[:idx + 1], "offending_index": idx, "reason": reason})
        else:
            m = re.search(r'"([^"]+)"', why)
            viol({"kind": "trace", "ev": e.get("ev"), "what": (m.group(1) if m else "")[:60]},
                 "EXT9 world %s: %s at event %d %s; the specification says: %s; last steps %s" % (
                     world, reason, idx, json.dumps(short(e))[:500], why[:900], hist),
                 {"segment": sg[:idx + 1], "offending_index": idx, "reason": reason, "why": why})
    # ---- lines judged one by one
    groups = {}
    for e, why in nonconf:
        if e["ev"] == "CRead":
            sig = {"kind": "concurrent-read"}
        elif e["ev"] == "CSubnet":
            sig = {"kind": "concurrent-subnet"}
        elif "DesiredLength" in why:
            sig = {"kind": "prefix-length", "clause": "DesiredLength"}
        elif '"contract"' in why:
            m = re.search(r'"contract", "([^"]+)"', why)
            sig = {"kind": "subnet-contract", "clause": m.group(1) if m else "?"}
        elif '"decision"' in why:
            m = re.search(r'"decision", "([^"]+)"', why)
            sig = {"kind": "subnet-decision", "step": m.group(1) if m else "?"}
        else:
            m = re.search(r'"([^"]+)"', why)
            sig = {"kind": "subnet-line", "what": (m.group(1) if m else "")[:60]}
        groups.setdefault(json.dumps(sig, sort_keys=True), []).append((e, why))
    for k, l in sorted(groups.items()):
        sig = json.loads(k)
        e, why = l[0]
        viol(sig, "EXT9 %s: %d line(s); first: %s -> %s; %s" % (
            " ".join("%s=%s" % kv for kv in sorted(sig.items())), len(l), e.get("conc") or json.dumps(short(e))[:300],
            json.dumps(e.get("sn") or e.get("got")), why[:1200]), {"event": e, "why": why, "count": len(l)})

    # ---- accounting and vacuity (never a verdict)
    failed_worlds = set(sg[0].get("world") for sg, _, _, _ in fails)
    cnt = {"hit": 0, "miss": 0, "hostq": 0, "hostnil": 0, "dataerr": 0, "mapped": 0, "zone": 0, "compat": 0, "v6": 0, "lp": 0,
           "cleared": 0, "loaderr": set(), "scanerr": 0, "evict": 0, "unknown": 0}
    world, seenp, prev = None, set(), None
    for e in ev:
        if e["ev"] == "Reset":
            world, seenp, prev = e["world"], set(), e
            continue
        if e["ev"] == "Data":
            ip = e["ip"]
            if e["zero"]:
                cnt["hostq"] += 1
                cnt["hostnil"] += e["got"]["nil"]
            elif e["err"]:
                cnt["dataerr"] += 1
            elif e["p"] in seenp:
                cnt["hit"] += 1
            else:
                cnt["miss"] += 1
                if prev is not None and prev.get("obs", {}).get("iplen") == e["obs"]["iplen"] and e["obs"]["iplen"] > 0:
                    cnt["evict"] += 1
            seenp.add(e["p"])
            cnt["mapped"] += len(ip) == 16 and ip[:12] == [0] * 10 + [255, 255]
            cnt["compat"] += len(ip) == 16 and ip[:12] == [0] * 12 and any(ip[12:])
            cnt["v6"] += len(ip) == 16
            cnt["zone"] += bool(e["zone"])
            cnt["unknown"] += (not e["zero"]) and e["ha"] == 0 and e["hc"] == 0 and not e["got"]["nil"]
            c.count_case(("data", world.split("#")[0], ip, e["host"], e["got"], e["p"] in seenp),
                         nontrivial=not e["got"]["nil"] and any(e["got"][k] for k in ("ctry", "asn")))
        elif e["ev"] == "Subnet":
            cnt["lp"] += e["lp"] > 0
            c.count_case(("subnet", world.split("#")[0], e["l"], e["fam"], e["sn"]), nontrivial=e["sn"]["n"] > 0)
        elif e["ev"] in ("RStart", "RJoin", "RSwapDB", "RSwapLoc", "RSwapCtry"):
            if e["ev"] == "RStart" and e["res"] == "ret":
                cnt["loaderr"].add(e["err"])
            if e["ev"] == "RJoin" and e["res"] == "ret":
                cnt["scanerr"] += 1
            if e["ev"] == "RSwapDB" and prev is not None and prev["obs"]["iplen"] > 0 and e["obs"]["iplen"] == 0:
                cnt["cleared"] += 1
            c.count_case(("refresh", world.split("#")[0], e["ev"], e.get("res"), e.get("err"), e["obs"]["dba"], e["obs"]["dbc"],
                          e["obs"].get("loc4"), e["obs"].get("c4"), e["obs"].get("loc6"), e["obs"].get("c6")))
        elif e["ev"] == "Probe":
            c.notes.append("observation: %s is rejected by the reader check of geoIPFromFile (it looks 0.0.0.0 up into a nil "
                           "interface): Refresh says %r" % (e["what"], e["err"][:200]))
        prev = e
    stepcnt = dict(c.ext9_steps)
    nshared = stepcnt.pop("(shared)", 0)
    c.notes.append("observation: %d cache hits returned the data of ANOTHER address under the same cache key although the "
                   "databases have a different record for the asked address (networks narrower than /24 or /56, e.g. the "
                   "/28../31 networks of the shipped City database): the documented granularity of the key, order dependent" % nshared)
    nev = {}
    for e in ev:
        nev[e["ev"]] = nev.get(e["ev"], 0) + 1
    c.notes.append("stepper: %d events in %d worlds (%d from TLC behaviours: %s); events %s; Data: %d misses, %d hits, %d evictions "
                   "seen, %d host-only questions (%d nil), %d errors, %d unknown addresses; IPv4-mapped %d, IPv4-compatible %d, "
                   "IPv6 %d, zoned %d; SubnetByLocation decisions %s, %d with the pointer of an earlier answer; refreshes: caches "
                   "cleared with entries in them %d, load errors %s, scan errors %d" % (
                       len(ev), nev.get("Reset", 0), sum(1 for e in ev if e["ev"] == "Reset" and e.get("src") == "sim"), acts, nev,
                       cnt["miss"], cnt["hit"], cnt["evict"], cnt["hostq"], cnt["hostnil"], cnt["dataerr"], cnt["unknown"],
                       cnt["mapped"], cnt["compat"], cnt["v6"], cnt["zone"], stepcnt, cnt["lp"], cnt["cleared"],
                       sorted(cnt["loaderr"]), cnt["scanerr"]))
    c.sample({"first_events": [short(e) for e in ev[1:9]]})
    expected_cand = set(w["id"] for w in cand)
    unexpected = failed_worlds - expected_cand
    if not unexpected and not c.violations:
        need_acts = {"Put", "RStart", "RSwapLoc", "RSwapCtry", "RJoin", "RSwapDB", "Data", "Subnet"}
        miss = [a for a in need_acts if acts.get(a, 0) < 3]
        need_steps = {"exact", "top", "country", "zero", "hack"}
        vac = []
        if miss:
            vac.append("TLC behaviours without %s" % miss)
        if need_steps - set(stepcnt):
            vac.append("SubnetByLocation decisions never taken: %s" % sorted(need_steps - set(stepcnt)))
        for k, mn in (("hit", 20), ("miss", 50), ("hostq", 10), ("hostnil", 3), ("dataerr", 1), ("mapped", 5), ("compat", 1), ("v6", 10),
                      ("zone", 1), ("lp", 5), ("cleared", 3), ("evict", 5), ("unknown", 5)):
            if cnt[k] < mn:
                vac.append("%s: %d < %d" % (k, cnt[k], mn))
        if {"reading asn geoip", "reading country geoip"} - cnt["loaderr"]:
            vac.append("load errors seen: %s" % sorted(cnt["loaderr"]))
        if vac:
            raise Undecided("stepper run vacuous: " + "; ".join(vac))


if __name__ == "__main__":
    main("EXT9", run)
