"""EXT7  (extension, not a listed property) periodic refreshing, its debug API and the upstream
connection pool.

Three components: agdservice.RefreshWorker (specs/RefreshWorker.tla), the debug HTTP API that triggers
refreshers and clears caches (specs/DebugAPI.tla) and dnsserver/pool.Pool (specs/ConnPool.tla)."""
import collections
import json
import os
import re
from concurrent.futures import ThreadPoolExecutor

from vlib import Check, NCPU, REPO, read_ndjson, write_ndjson, main, Undecided

# Disagreements between the code and its own documents are reported as violations (to be listed in
# known_findings.json); VERIF_EXT7_CANDIDATES=0 demotes them to notes.
CANDIDATES = os.environ.get("VERIF_EXT7_CANDIDATES", "1") != "0"

RW_DECL = '''package agdservice

import "time"

// Hooks of the /verif overlay (EXT7): the ticker and the start-sleep timer of
// RefreshWorker go through these variables; the defaults are the real ones.
type verifTicker struct {
	C      <-chan time.Time
	StopFn func()
}

func (t *verifTicker) Stop() { t.StopFn() }

var verifNewTicker = func(d time.Duration) *verifTicker {
	t := time.NewTicker(d)
	return &verifTicker{C: t.C, StopFn: t.Stop}
}

type verifTimer struct {
	C      <-chan time.Time
	StopFn func() bool
}

func (t *verifTimer) Stop() bool { return t.StopFn() }

var verifNewTimer = func(d time.Duration) *verifTimer {
	t := time.NewTimer(d)
	return &verifTimer{C: t.C, StopFn: t.Stop}
}
'''

RW_SANITY = [
    ("async", "NoOverlap", "the refresh runs in a goroutine of its own"),
    ("err_stops", "ErrorDoesNotStopLoop", "a failed refresh ends the loop"),
    ("no_cancel", "RefreshContextBounded", "the periodic context is never cancelled"),
    ("bg_ctx", "RefreshContextBounded", "periodic refresh with a foreign context"),
    ("skip_final", "FinalRefreshIffConfigured", "no refresh on shutdown although configured"),
    ("final_always", "FinalRefreshIffConfigured", "refresh on shutdown although not configured"),
    ("final_late", "FinalBeforeStop", "the shutdown refresh runs after the worker was stopped"),
    ("swallow_err", "ShutdownResult", "Shutdown returns nil after a failed refresh"),
    ("abort_refreshes", "NoRefreshOnceDoneSeen", "an aborted start sleep is followed by a refresh"),
    ("nojoin_late", "NoRefreshAfterShutdownReturn", "the code as written: a refresh begins after Shutdown returned"),
    ("nojoin_running", "ShutdownWaitsForRefresh", "the code as written: Shutdown returns during a refresh"),
]
RW_SANITY_LIVE = [
    ("no_close", "LoopExits", "Shutdown does not close done: the loop never exits"),
    ("final_bg", "ShutdownReturnsByDeadline", "the shutdown refresh ignores Shutdown's context"),
]


def segments(ev):
    segs, cur = [], []
    for e in ev:
        if e["ev"] == "Reset" and cur:
            segs.append(cur)
            cur = []
        cur.append(e)
    if cur:
        segs.append(cur)
    return segs


def validate(c, module, cfg, events, tags=(), is_reset=lambda e: e.get("ev") == "Reset", max_fail=8, timeout=1500):
    """Like Check.validate_segments; also returns, for the accepted rest, the lines TLC printed with the given
    tags: {tag: [(event, other fields, segment, index in segment)]} (first field of the tuple: 1-based line)."""
    segs, cur = [], []
    for e in events:
        if is_reset(e) and cur:
            segs.append(cur)
            cur = []
        cur.append(e)
    if cur:
        segs.append(cur)
    failures, extra, total = [], {}, len(segs)
    while segs:
        flat = [e for sg in segs for e in sg]
        path = os.path.join(c.scratch, "trace_in.ndjson")
        write_ndjson(path, flat)
        r = c.tlc_trace(module, cfg, path, timeout=timeout)
        if r.ok:
            where = []
            for sg in segs:
                where += [(sg, i) for i in range(len(sg))]
            for tag in tags:
                seen = set()
                for t in r.tuples(tag):
                    n = int(t[0]) - 1
                    if n in seen:
                        continue
                    seen.add(n)
                    extra.setdefault(tag, []).append((flat[n], t[1:], where[n][0], where[n][1]))
            break
        if r.violated:
            ls = re.findall(r"^/\\ l = (\d+)", r.out, re.M)
            if not ls:
                raise Undecided("invariant %s violated but no l in trace:\n%s" % (r.violated, r.out[-3000:]))
            bad = int(ls[-1]) - 2
            reason = "invariant %s violated after this event" % r.violated
        else:
            st = r.tuples("STUCK")
            if not st:
                raise Undecided("trace rejected without STUCK/invariant:\n%s" % r.out[-3000:])
            bad = int(st[-1][0]) - 1
            reason = "no spec action explains this event"
        if bad < 0 or bad >= len(flat):
            raise Undecided("bad offending index %d of %d" % (bad, len(flat)))
        acc = 0
        for si, sg in enumerate(segs):
            if bad < acc + len(sg):
                failures.append((sg, bad - acc, reason))
                del segs[si]
                break
            acc += len(sg)
        if len(failures) >= max_fail:
            break
    c.cov["traces_validated_against_impl"] += total - len(failures)
    return failures, extra


def tlc_live_sanity(c, module, cfg, prop, name):
    """A liveness property that must be reported as violated."""
    r = c._tlc(["-workers", "2", "-config", cfg, module], 600)
    if not re.search(r"Temporal propert(y %s was|ies were) violated" % prop, r.out):
        raise Undecided("sanity (liveness) %s: %s was expected to fail\n%s" % (cfg, prop, r.out[-2000:]))
    c.cov["tlc_runs"].append({"name": name, "module": module, "cfg": cfg, "generated": r.generated,
                              "distinct": r.distinct, "wall_s": round(r.wall, 1), "result": "expected-violation:" + prop})


def tlc_jobs(c, jobs, workers=4):
    """(module, cfg, expected violation or None, name) in a thread pool (TLC only)."""
    w = max(2, min(4, NCPU // 4))

    def one(j):
        mod, cfg, exp, name = j
        cov = exp is None and "live" not in cfg
        r = c.tlc_mc(mod, cfg, workers=1 if exp else w, expect_violation=exp, count=False, name=name, timeout=1500,
                     coverage=cov)
        if cov:
            z = [x for x in r.zero_coverage() if x[0] != "Init"]
            if z:
                raise Undecided("%s/%s: actions never taken in the exhaustive run: %s" % (mod, cfg, z))
        return r

    with ThreadPoolExecutor(max_workers=workers) as ex:
        res = list(ex.map(one, jobs))
    for j, r in zip(jobs, res):
        if j[2] is None:
            c.cov["states"] += r.distinct
            c.cov["transitions"] += r.generated
    return res


# ------------------------------------------------------------------------------------- RefreshWorker
def rw_models(c):
    jobs = [("RefreshWorker", "RefreshWorker_mc.cfg", None,
             "the code (Joins = FALSE): 4 configurations, 4 ticks, 4 refreshes, 2 Shutdown calls"),
            ("RefreshWorker", "RefreshWorker_mc_contract.cfg", None,
             "the contract of service.Interface (Joins = TRUE) incl. NoRefreshAfterShutdownReturn"),
            ("RefreshWorker", "RefreshWorker_live.cfg", None,
             "liveness under fairness: TickLeadsToRefresh, ShutdownReturnsByDeadline, LoopExits"),
            ("RefreshWorker", "RefreshWorker_live_contract.cfg", None, "the same for the contract variant")]
    if c.thorough:
        jobs.append(("RefreshWorker", "RefreshWorker_mc_big.cfg", None, "8 ticks, 8 refreshes, 2 Shutdown calls"))
    jobs += [("RefreshWorker", "RefreshWorker_sanity_%s.cfg" % d, inv, "sanity: " + what) for d, inv, what in RW_SANITY]
    return jobs


def rw_overlay(c):
    return c.rewrite_sub("internal/agdservice/refresh.go", [
        (r"^(\s*tick\s+)\*time\.Ticker\b", r"\1*verifTicker", 1),
        (r"\btime\.NewTicker\(", "verifNewTicker(", 1),
        (r"\btime\.NewTimer\(", "verifNewTimer(", 1),
    ], decl=RW_DECL)


ENV_STEPS = {"Start", "Tick", "TimerFire", "RefreshBegin", "RefreshEnd", "ShutdownCall", "CtxExpire", "FinalRefreshEnd"}


def rw_describe(sg, idx):
    e = sg[idx]
    head = sg[0]
    steps = [x for x in sg[1:idx + 1] if x["ev"] != "Obs"]
    brief = ["%s%s" % (x["ev"], "".join(":%s" % x[k] for k in ("which", "out", "ctx", "res", "sent") if k in x))
             for x in steps]
    prev_obs = [x for x in sg[:idx] if x["ev"] == "Obs"]
    return "RefreshOnShutdown=%s RandomizeStart=%s (%s); offending event %d %s; before it: %s; last observation %s" % (
        head.get("ros"), head.get("rnd"), head.get("src"), idx, json.dumps(e), " ".join(brief[-14:]),
        json.dumps(prev_obs[-1]) if prev_obs else "-")


def rw_clause(sg, idx, reason):
    """Name the clause that the unexplained event breaks (for the signature)."""
    if reason.startswith("invariant"):
        return reason.split()[1]
    e = sg[idx]
    ev = e["ev"]
    pre = sg[:idx]
    running = sum(1 for x in pre if x["ev"] == "RefreshBegin" and x["which"] == "periodic") - \
        sum(1 for x in pre if x["ev"] == "RefreshEnd" and x["which"] == "periodic")
    if ev == "Reset":
        return "TickerInterval"
    if ev == "RefreshBegin":
        if e["which"] == "periodic":
            if e.get("ctx") != "cfg":
                return "RefreshContextBounded"
            if running > 0:
                return "NoOverlap"
            return "UnexpectedRefresh"
        if e.get("ctx") != "shutdown":
            return "RefreshContextBounded"
        return "FinalRefreshIffConfigured"
    if ev == "RefreshEnd":
        return "RefreshContextBounded" if e.get("out") == "timeout" and not e.get("ctxdone") else "UnexpectedRefreshEnd"
    if ev == "ShutdownRet":
        return "ShutdownResult"
    if ev == "SleepBegin":
        return "RandomizeStart"
    if ev == "CtxEnter":
        return "UnexpectedTickTaken"
    if ev == "Tick":
        return "TickerChannel"
    if ev == "Obs":
        if e.get("live", 0) != e.get("running", 0):
            return "RefreshContextBounded"
        if e.get("loop") == "exited" and not e.get("done"):
            return "ErrorDoesNotStopLoop"
        if e.get("loop") in ("idle", "sleep") and e.get("done"):
            return "LoopExits"
        if e.get("sd") == "final" and (e.get("done") or e.get("tstop")):
            return "FinalBeforeStop"
        if any(x["ev"] == "ShutdownRet" for x in pre) and not (e.get("done") and e.get("tstop")):
            return "ShutdownStops"
        if e.get("loop") in ("idle", "sleep", "exited") and (e.get("running", 0) > 0 or e.get("ctxwait", 0) > 0):
            return "NoOverlap"
        return "Obs"
    return "Unexplained"


def run_rw(c):
    th = c.thorough
    behs = c.tlc_sim("RefreshWorker", "RefreshWorker_sim.cfg", num=600 if th else 80, depth=60)
    scheds = []
    for b in behs:
        if not b or b[0]["a"] != "Init":
            raise Undecided("behaviour without Init record")
        cfg = b[0]["p"]
        steps = [{"a": s["a"], "p": s["p"]} for s in b[1:] if s["a"] in ENV_STEPS]
        if steps:
            scheds.append({"src": "tlc", "ros": cfg[0] == "1", "rnd": cfg[1] == "1", "steps": steps})
    if len(scheds) < 10:
        raise Undecided("too few behaviours from TLC: %d" % len(scheds))
    inp = os.path.join(c.scratch, "ext7_rw_scheds.json")
    json.dump(scheds, open(inp, "w"))
    ov = rw_overlay(c)
    out, _ = c.go_harness("internal/agdservice", "^TestVerifEXT7Refresh$", files=["ext7_test.go"], rewrites=ov,
                          env={"VERIF_IN": inp, "VERIF_NRANDOM": 3000 if th else 300})
    ev = read_ndjson(out)
    segs = segments(ev)
    fails, extra = validate(c, "TraceRefreshWorker", "TraceRefreshWorker.cfg", ev, tags=("NOJOIN",), max_fail=12)
    seen = set()
    for sg, idx, reason in fails:
        clause = rw_clause(sg, idx, reason)
        sig = {"kind": "refreshworker-trace", "clause": clause, "ev": sg[idx]["ev"]}
        key = json.dumps(sig, sort_keys=True)
        if key in seen:
            continue
        seen.add(key)
        c.violation(sig, "EXT7 RefreshWorker: %s [%s]: %s" % (reason, clause, rw_describe(sg, idx)),
                    {"segment": sg[:idx + 1], "offending_index": idx, "reason": reason})

    # ---- the contract of service.Interface: Shutdown returns only when the worker has terminated
    nj = collections.Counter()
    example = {}
    for e, args, sg, idx in extra.get("NOJOIN", []):
        kind = "refresh-about-to-begin" if args[0].strip('"') == "ctx" else "refresh-in-progress"
        nj[kind] += 1
        example.setdefault(kind, (sg, idx, "the contract variant (Joins = TRUE) does not let Shutdown return here"))
    late = late_take = 0
    for sg in segs:
        ret = False
        for e in sg:
            ret = ret or e["ev"] == "ShutdownRet"
            late += ret and e["ev"] == "RefreshBegin" and e["which"] == "periodic"
            late_take += ret and e["ev"] == "SleepBegin"
    if nj:
        text = ("RefreshWorker.Shutdown does not wait for the loop goroutine and does not document it (golibs "
                "service.Interface: 'It is recommended that Shutdown returns only after the service has completely "
                "finished its termination.  If that cannot be done, the implementation of Shutdown must document "
                "that'): Shutdown returned while a periodic refresh was in progress in %d worlds and while the loop "
                "had taken a tick and was about to begin a refresh in %d worlds; %d periodic refreshes BEGAN after "
                "Shutdown had returned" % (nj["refresh-in-progress"], nj["refresh-about-to-begin"], late))
        if CANDIDATES:
            sg, idx, reason = example.get("refresh-about-to-begin") or example["refresh-in-progress"]
            c.violation({"kind": "refreshworker-shutdown-no-join"}, "EXT7 " + text + "; e.g. " + rw_describe(sg, idx),
                        {"segment": sg[:idx + 1], "offending_index": idx, "reason": reason})
        else:
            c.notes.append("CANDIDATE (not reported, VERIF_EXT7_CANDIDATES=0): " + text)

    # ---- accounting, vacuity, observations
    cnt = collections.Counter()
    for sg in segs:
        h = sg[0]
        kinds = collections.Counter()
        overlap_final = False
        fin_running = per_running = 0
        for e in sg:
            cnt[e["ev"]] += 1
            if e["ev"] == "RefreshBegin":
                kinds["begin:" + e["which"]] += 1
                cnt["logger:%s:%s" % (e["which"], e["logger"])] += 1
                if e["which"] == "final":
                    fin_running += 1
                else:
                    per_running += 1
                overlap_final = overlap_final or (fin_running > 0 and per_running > 0)
            elif e["ev"] == "RefreshEnd":
                kinds["end:%s:%s" % (e["which"], e["out"])] += 1
                if e["which"] == "final":
                    fin_running -= 1
                else:
                    per_running -= 1
            elif e["ev"] == "ShutdownRet":
                kinds["ret:" + e["res"]] += 1
            elif e["ev"] == "Tick":
                kinds["tick:%s" % e["sent"]] += 1
            elif e["ev"] == "Obs":
                kinds["obs:" + e["loop"]] += 1
        cnt["overlap_final_periodic"] += overlap_final
        for k, v in kinds.items():
            cnt[k] += v
        cnt["src:" + h["src"].split(":")[0]] += 1
        cnt["cfg:%d%d" % (h["ros"], h["rnd"])] += 1
        c.count_case(("rw", h["ros"], h["rnd"], [(e["ev"], e.get("which"), e.get("out"), e.get("res"), e.get("sent"))
                                                  for e in sg if e["ev"] not in ("Obs", "Reset")]),
                     nontrivial=kinds["begin:periodic"] > 0 or kinds["begin:final"] > 0)
    aborted = [(sg[0].get("src"), sg[-1].get("why")) for sg in segs if sg[-1]["ev"] == "Abort"]
    if not [v for v in c.violations if v[0].get("kind") == "refreshworker-trace"]:
        if aborted:
            raise Undecided("RefreshWorker worlds that could not be driven: %s" % aborted[:5])
        need = ["Start", "Tick", "SleepBegin", "TimerFire", "CtxEnter", "RefreshBegin", "RefreshEnd", "ShutdownCall",
                "CtxExpire", "ShutdownRet", "begin:periodic", "begin:final", "end:periodic:ok", "end:periodic:err",
                "end:periodic:timeout", "end:final:ok", "end:final:err", "end:final:timeout", "ret:nil", "ret:err",
                "tick:True", "tick:False", "obs:idle", "obs:sleep", "obs:ctx", "obs:refr", "obs:exited", "obs:none",
                "src:tlc", "src:random", "src:fixed", "cfg:00", "cfg:01", "cfg:10", "cfg:11"]
        miss = [k for k in need if cnt[k] == 0]
        if miss:
            raise Undecided("RefreshWorker traces vacuous: never seen %s" % miss)
    c.notes.append("RefreshWorker: %d worlds (%d from TLC behaviours, %d random, %d fixed), %d events; periodic refreshes %d "
                   "(ok %d, err %d, timeout %d), shutdown refreshes %d, Shutdown results nil %d / err %d / panic %d; ticks "
                   "dropped or refused %d of %d" % (
                       len(segs), cnt["src:tlc"], cnt["src:random"], cnt["src:fixed"], len(ev), cnt["begin:periodic"],
                       cnt["end:periodic:ok"], cnt["end:periodic:err"], cnt["end:periodic:timeout"], cnt["begin:final"],
                       cnt["ret:nil"], cnt["ret:err"], cnt["ret:panic"], cnt["tick:False"], cnt["Tick"]))
    c.notes.append("RefreshWorker: in %d worlds the loop took the waiting tick between close(done) and tick.Stop() of a Shutdown "
                   "call (Go's select picks at random among the ready cases) and began a start sleep that was recorded after "
                   "Shutdown had returned; the sleep is aborted at once (done is closed), no refresh follows" % late_take)
    c.notes.append("RefreshWorker observations (the documents are silent): a second Shutdown panics (close of a closed "
                   "channel) in %d of %d second calls, after running the shutdown refresh again when configured; the shutdown "
                   "refresh ran concurrently with a periodic refresh in %d worlds (nothing excludes it); the refresher's context "
                   "carried the worker's logger in %d of %d periodic and %d of %d shutdown refreshes" % (
                       cnt["ret:panic"], sum(1 for sg in segs if sum(1 for e in sg if e["ev"] == "ShutdownCall") > 1),
                       cnt["overlap_final_periodic"], cnt["logger:periodic:True"], cnt["begin:periodic"],
                       cnt["logger:final:True"], cnt["begin:final"]))
    pick = [sg for sg in segs if sg[0]["src"] == "fixed:shutdown-before-begin" and not sg[0]["rnd"]][:1]
    if pick:
        c.sample({"refreshworker_world": [e for e in pick[0] if e["ev"] != "Obs"]})
    return cnt


# ------------------------------------------------------------------------------------- ConnPool
POOL_DECL = """package pool

// Hook of the /verif overlay (EXT7): called after the RUnlock of Get ("get") and Put ("put") and after
// close(p.connsChan) of Close ("close").
var verifPoolHook = func(where string) {}
"""

POOL_SANITY = [
    ("put_close_race", "NoPanic", "the code as written: Put sends on the channel that Close has closed"),
    ("handout_expired", "NoExpiredHandout", "Get hands out an expired connection"),
    ("expired_leak", "Ledger", "an expired connection is dropped without being closed"),
    ("get_peeks", "NoDoubleHandout", "Get leaves the connection in the channel"),
    ("full_leak", "Ledger", "Put to a full pool drops the connection"),
    ("full_blocks", "CapacityBound", "the capacity is ignored"),
    ("close_leaks", "Ledger", "Close forgets the queued connections"),
    ("put_after_close", "ClosedForGood", "Put to a closed pool queues the connection"),
    ("get_after_close", "ClosedMeansErrClosed", "Get of a closed pool creates a connection"),
    ("double_close", "CloseOnce", "Close closes a queued connection twice"),
    ("stamp_on_put", "StampOnGet", "Put stamps the connection, Get does not"),
]


def pool_models(c):
    jobs = [("ConnPool", "ConnPool_mc.cfg", None, "2 callers, 2 connections, capacity 0/1, time-out 0/1, 5 calls, time 0..3"),
            ("ConnPool", "ConnPool_mc_cap2.cfg", None, "2 callers, 3 connections, capacity 2, 5 calls")]
    if c.thorough:
        jobs.append(("ConnPool", "ConnPool_mc_big.cfg", None, "3 connections, capacity 1/2, time-out 0/2, 7 calls, time 0..4"))
    jobs += [("ConnPool", "ConnPool_sanity_%s.cfg" % d, inv, "sanity: " + what) for d, inv, what in POOL_SANITY]
    return jobs


def pool_overlay(c):
    # the clock: every file of the package that reads it (conn.go must be one of them: isExpired)
    files = []
    for fn in ("pool.go", "conn.go"):
        rel = "internal/dnsserver/pool/" + fn
        try:
            text = open(os.path.join(REPO, rel)).read()
        except OSError:
            raise Undecided("pool overlay: %s does not exist" % rel)
        if re.search(r"\btime\.(Now|Since|Until)\(", re.sub(r"//.*", "", text)):
            files.append(rel)
    if "internal/dnsserver/pool/conn.go" not in files:
        raise Undecided("pool overlay: conn.go does not read the clock any more (source shape changed)")
    ov = c.rewrite_clock(files)
    return c.rewrite_sub("internal/dnsserver/pool/pool.go", [
        (r"(func \(p \*Pool\) Get\([\s\S]*?p\.connsChanMu\.RUnlock\(\))", r'\1\n\tverifPoolHook("get")', 1),
        (r"(func \(p \*Pool\) Put\([\s\S]*?p\.connsChanMu\.RUnlock\(\))", r'\1\n\tverifPoolHook("put")', 1),
        (r"(\n\tclose\(p\.connsChan\))", r'\1\n\tverifPoolHook("close")', 1),
    ], overlay=ov, decl=POOL_DECL)


def pool_describe(sg, idx):
    h = sg[0]
    steps = ["%s(%s%s)%s" % (x["ev"], x.get("c", ""), (",%s" % x["x"]) if x.get("x") else "",
                             ("->%s" % x["res"]) if "res" in x else "") for x in sg[1:idx + 1]]
    return "capacity %s, idle time-out %s ticks (%s); offending event %d %s; steps: %s" % (
        h.get("cap"), h.get("tmo"), h.get("src"), idx, json.dumps(sg[idx]), " ".join(steps[-16:]))


def run_pool(c):
    th = c.thorough
    behs = c.tlc_sim("ConnPool", "ConnPool_sim.cfg", num=800 if th else 120, depth=45)
    scheds = []
    for b in behs:
        if not b or b[0]["a"] != "Init":
            raise Undecided("ConnPool behaviour without Init record")
        steps = [{"a": s["a"], "c": s["c"], "x": s["x"], "ok": s["ok"], "d": s["d"]} for s in b[1:]]
        if len(steps) > 3:
            scheds.append({"src": "tlc", "cap": b[0]["x"], "tmo": b[0]["d"], "steps": steps})
    if len(scheds) < 10:
        raise Undecided("too few ConnPool behaviours from TLC: %d" % len(scheds))
    inp = os.path.join(c.scratch, "ext7_pool_scheds.json")
    json.dump(scheds, open(inp, "w"))
    out, _ = c.go_harness("internal/dnsserver/pool", "^TestVerifEXT7Pool$", files=["ext7_test.go"], rewrites=pool_overlay(c),
                          env={"VERIF_IN": inp, "VERIF_NRANDOM": 5000 if th else 450})
    ev = read_ndjson(out)
    table = [e for e in ev if e["ev"] == "PoolErr"]
    ev = [e for e in ev if e["ev"] != "PoolErr"]
    segs = segments(ev)
    fails, extra = validate(c, "TraceConnPool", "TraceConnPool.cfg", ev + table, tags=("PUTRACE", "NONCONF"), max_fail=12)
    seen = set()
    for sg, idx, reason in fails:
        e = sg[idx]
        clause = reason.split()[1] if reason.startswith("invariant") else "step"
        sig = {"kind": "pool-trace", "clause": clause, "ev": e["ev"], "res": e.get("res", e.get("at", ""))}
        key = json.dumps(sig, sort_keys=True)
        if key in seen:
            continue
        seen.add(key)
        c.violation(sig, "EXT7 pool.Pool: %s: %s" % (reason, pool_describe(sg, idx)),
                    {"segment": sg[:idx + 1], "offending_index": idx, "reason": reason})
    # ---- the Put / Close race
    races = extra.get("PUTRACE", [])
    if races:
        e, _, sg, idx = races[0]
        text = ("pool.Pool.Put panics ('send on closed channel') when Close runs between Put's read of p.connsChan (under "
                "RLock) and its send: the connection is neither queued nor closed, although Put's comment says 'If the pool "
                "is closed, the connection will be simply closed instead' (%d worlds)" % len(races))
        if CANDIDATES:
            c.violation({"kind": "pool-put-close-race"}, "EXT7 " + text + "; " + pool_describe(sg, idx),
                        {"segment": sg[:idx + 1], "offending_index": idx,
                         "reason": "ConnPool.tla admits this only as Defect = put_close_race (NoPanic)"})
        else:
            c.notes.append("CANDIDATE (not reported, VERIF_EXT7_CANDIDATES=0): " + text)
    # ---- the error table
    for e, args, sg, idx in extra.get("NONCONF", []):
        kind = "pool-put-closed-not-errclosed" if e.get("kind") == "put" else "pool-close-errors"
        text = "pool.Pool error table: %s: %s" % (args[0], json.dumps(e))
        if kind == "pool-put-closed-not-errclosed" and e.get("closefails") and e.get("closed"):
            text = ("pool.Pool.Put to a closed pool returns an error that is not ErrClosed (errors.Is) when closing the "
                    "connection fails, although Close's comment says 'every method will return ErrClosed' (closeConn puts "
                    "ErrClosed into the deferred half of an errors.Pair, which Unwrap does not reach): " + json.dumps(e))
            if not CANDIDATES:
                c.notes.append("CANDIDATE (not reported, VERIF_EXT7_CANDIDATES=0): " + text)
                continue
        c.violation({"kind": kind, "closefails": bool(e.get("closefails", False))}, "EXT7 " + text, {"line": e})
    # ---- accounting / vacuity
    cnt = collections.Counter()
    for sg in segs:
        h = sg[0]
        cnt["src:" + h["src"].split(":")[0]] += 1
        conc = False
        inflight = set()
        for e in sg:
            cnt[e["ev"]] += 1
            if "res" in e:
                cnt["%s:%s" % (e["ev"], e["res"])] += 1
            if e["ev"] in ("GetSnap", "PutSnap") or (e["ev"] == "CloseLock" and e["res"] == "locked"):
                inflight.add(e["c"])
            elif e["ev"] in ("PutSend", "CloseDrain") or (e["ev"] in ("GetTake", "GetCreate") and e.get("res") != "create"):
                inflight.discard(e["c"])
            conc = conc or len(inflight) > 1
            if e["ev"] in ("GetTake",) and e.get("res") == "conn":
                cnt["reuse"] += 1
        cnt["concurrent"] += conc
        cnt["closed_total"] += sum(1 for n in sg[-1].get("ncl", []) if n) if sg[-1]["ev"] == "End" and len(sg) > 1 else 0
        c.count_case(("pool", h["cap"], h["tmo"], [(e["ev"], e.get("c"), e.get("x"), e.get("res"), e.get("d")) for e in sg[1:]]),
                     nontrivial=len(sg) > 4)
    aborted = [(sg[0].get("src"), sg[-1].get("why")) for sg in segs if sg[-1]["ev"] == "Abort"]
    if not [v for v in c.violations if v[0].get("kind") == "pool-trace"]:
        if aborted:
            raise Undecided("pool worlds that could not be driven: %s" % aborted[:5])
        need = ["GetTake:conn", "GetTake:create", "GetTake:errclosed", "GetCreate:conn", "GetCreate:err", "PutSend:nil",
                "PutSend:errclosed", "CloseLock:locked", "CloseLock:errclosed", "CloseDrain:nil", "Advance", "reuse",
                "src:tlc", "src:random-live", "src:fixed"]
        miss = [k for k in need if cnt[k] == 0]
        if miss or cnt["concurrent"] < 20 or len(table) < 10:
            raise Undecided("pool traces vacuous: never seen %s; worlds with two calls in flight %d; table lines %d" % (
                miss, cnt["concurrent"], len(table)))
    expired = 0
    for sg in segs:
        prev = None
        for e in sg:
            if e["ev"] == "GetTake" and prev is not None and sum(e["ncl"]) > sum(prev["ncl"]):
                expired += sum(e["ncl"]) - sum(prev["ncl"])
            if "ncl" in e:
                prev = e
    if expired < 5 and not c.violations:
        raise Undecided("pool traces vacuous: expired connections closed by Get only %d times" % expired)
    c.notes.append("pool.Pool: %d worlds (%d from TLC behaviours, %d random, %d fixed), %d with two calls in flight; Get handed "
                   "out an idle connection %d times, created %d, closed %d expired ones; Put queued or closed %d, answered "
                   "ErrClosed %d, panicked %d; %d lines of the error table" % (
                       len(segs), cnt["src:tlc"], cnt["src:random-live"], cnt["src:fixed"], cnt["concurrent"], cnt["reuse"],
                       cnt["GetCreate:conn"], expired, cnt["PutSend:nil"], cnt["PutSend:errclosed"], cnt["PutSend:panic"],
                       len(table)))
    c.notes.append("pool.Pool observation: the age of a connection counts from the moment it was last handed out (Conn."
                   "lastTimeUsed: 'requested from the pool'), not from the moment it was put back: a connection that was in use "
                   "for longer than IdleTimeout expires the moment it is returned (modelled as documented)")
    pick = [sg for sg in segs if sg[0]["src"] == "fixed:put-close"][:1]
    if pick:
        c.sample({"pool_world": [{k: v for k, v in e.items() if k not in ("now",)} for e in pick[0]]})


# ------------------------------------------------------------------------------------- DebugAPI
DEBUG_SANITY = [
    ("mixed_wildcard", "WildcardOnlyAlone", '"*" together with other ids means everything'),
    ("empty_is_all", "EmptyRejected", "an empty list means everything"),
    ("any_method", "OnlyPostActs", "GET runs the jobs as well"),
    ("error_stops", "ErrorsIsolated", "the first failing refresher ends the request"),
    ("unknown_fails", "UnknownIgnored", "an id that matches nothing is an error"),
    ("cross_slash", "GlobIsPathMatch", '"*" inside a pattern crosses "/"'),
]


def debug_models(c):
    jobs = [("DebugAPI", "DebugAPI_mc_big.cfg" if c.thorough else "DebugAPI_mc.cfg", None,
             "the whole table: 3 apis x 3 methods x (5 body classes + lists of up to %d of 8 patterns) x 8 failure sets" % (
                 3 if c.thorough else 2))]
    jobs += [("DebugAPI", "DebugAPI_sanity_%s.cfg" % d, inv, "sanity: " + what) for d, inv, what in DEBUG_SANITY]
    return jobs


def run_debug(c):
    th = c.thorough
    out, _ = c.go_harness("internal/debugsvc", "^TestVerifEXT7Debug$", files=["ext7_test.go"],
                          env={"VERIF_MAXPATS": 3 if th else 2})
    ev = read_ndjson(out)
    path = os.path.join(c.scratch, "ext7_debug.ndjson")
    write_ndjson(path, ev)
    r = c.tlc_trace("TraceDebugAPI", "TraceDebugAPI.cfg", path, timeout=1500)
    if r.tuples("STUCK") or not r.ok:
        raise Undecided("TraceDebugAPI did not read every line:\n%s" % r.out[-3000:])
    c.cov["traces_validated_against_impl"] += len(ev)
    seen = set()
    for t in r.tuples("NONCONF"):
        e = ev[int(t[0]) - 1]
        why = t[1]
        sig = {"kind": "debugapi-line", "api": e["api"], "method": e["method"], "body": e["body"], "why": why}
        key = json.dumps(sig, sort_keys=True)
        if key in seen:
            continue
        seen.add(key)
        c.violation(sig, "EXT7 debug API: %s: %s %s body %r (class %s, patterns %s, failing %s) -> status %s, ran %s, results %s, "
                    "reason %r" % (why, e["method"], e["api"], e["concrete"], e["body"], e["pats"], e["fail"], e["status"],
                                   e["invoked"], e["results"], e["why"]), {"line": e, "reasons": why})
    dups = sorted({int(t[0]) - 1 for t in r.tuples("DUP")})
    cnt = collections.Counter()
    for e in ev:
        cnt["%s:%s:%s" % (e["api"], e["method"] == "POST", e["status"])] += 1
        cnt["body:" + e["body"]] += 1
        cnt["why:" + e["why"].split(":")[0]] += 1
        cnt["failing_ran"] += any(x[1] == "error" for x in e["results"])
        cnt["ran"] += len(e["invoked"])
        c.count_case(("debug", e["api"], e["method"], e["body"], e["pats"], e["fail"]),
                     nontrivial=e["status"] == 200 and len(e["invoked"]) > 0)
    if not c.violations:
        need = ["refresh:True:200", "refresh:True:400", "cache:True:200", "cache:True:400", "refresh:False:405",
                "cache:False:405", "other:True:404", "why:noids", "why:mixed", "why:decode", "body:malformed",
                "body:wrongtype", "body:noids", "body:null", "body:empty", "body:list"]
        miss = [k for k in need if cnt[k] == 0]
        if miss or cnt["failing_ran"] < 50 or len(ev) < 600:
            raise Undecided("debug API lines vacuous: %d lines, missing %s, lines with a failing refresher %d" % (
                len(ev), miss, cnt["failing_ran"]))
    c.notes.append("debug API: %d requests through the real handler (%d jobs ran, %d responses with a failed refresher); "
                   "statuses %s" % (len(ev), cnt["ran"], cnt["failing_ran"],
                                    {k: v for k, v in sorted(cnt.items()) if k.count(":") == 2}))
    if dups:
        e = ev[dups[0]]
        c.notes.append("debug API observation (the documents are silent): a job that is matched by several patterns of one request "
                       "runs once per matching pattern (%d requests), e.g. %s %s ran %s; the response has one result per id, so "
                       "the result of the earlier run is overwritten.  Ids that match nothing are ignored (200 with an empty or "
                       "partial result object); the order of the jobs follows the patterns, within one pattern it is the map "
                       "order of the refreshers (random) and the sorted order of the cache ids" % (
                           len(dups), e["concrete"], e["api"], e["invoked"]))
    c.sample({"debug_lines": [{k: e[k] for k in ("api", "method", "concrete", "status", "invoked", "results", "why")}
                              for e in ev if e["body"] == "list" and e["status"] == 200 and e["fail"]][:3]})


def run(c: Check):
    only = os.environ.get("VERIF_EXT7_ONLY", "rw,pool,debug")        # (development aid)
    jobs = rw_models(c) + pool_models(c) + debug_models(c)
    # the design-level runs go on in the background while the harnesses are built and run
    bg = ThreadPoolExecutor(max_workers=1)
    fut = bg.submit(tlc_jobs, c, jobs)
    try:
        if "rw" in only:
            run_rw(c)
        if "pool" in only:
            run_pool(c)
        if "debug" in only:
            run_debug(c)
    finally:
        fut.result()            # an Undecided of a model run outranks nothing but must surface
        bg.shutdown()
    for d, prop, what in RW_SANITY_LIVE:
        tlc_live_sanity(c, "RefreshWorker", "RefreshWorker_sanity_%s.cfg" % d, prop, "sanity (liveness): " + what)
    c.cov["exhaustive"] = True
    c.cov["rule"] = ("a case is (a) one world of a real RefreshWorker: one configuration driven through one schedule of ticks, "
                     "timer firings, gate releases and Shutdown calls (non-trivial = a refresh ran); (c) one world of a real "
                     "pool.Pool: capacity, idle time-out and one interleaving of the steps of Get / Put / Close calls of two "
                     "callers with clock advances (non-trivial = more than three steps); (b) one request to the debug API handler "
                     "(non-trivial = a 200 that ran at least one job); distinct by configuration and the sequence of events / "
                     "the abstract request")
    c.assumptions += [
        "RefreshWorker: the ticker and the start-sleep timer are virtual (overlay rewrite of time.NewTicker / time.NewTimer "
        "in refresh.go, fails closed); the virtual ticker has the semantics of time.Ticker as of Go 1.23 (capacity one, no "
        "stale tick after Stop); quiescence is read from goroutine states (runtime.Stack); close(done), tick.Stop(), the "
        "abort of a start sleep and the exit of the loop are placed by TLC (silent steps)",
        "pool.Pool: virtual clock and three hook calls by overlay rewrite of pool.go / conn.go (fails closed); the receive "
        "loop of Get is one step; connections are fakes that count Close calls; misuse (Put of a foreign or nil connection, "
        "a second Put of the same connection) is not modelled",
        "debug API: served through the handler of the API server built by debugsvc.New with httptest recorders (no socket); "
        "glob semantics on the modelled ids and patterns are written down as a table (MatchTab)",
        "TLC, SANY, CommunityModules Json",
    ]

if __name__ == "__main__":
    main("EXT7", run)
