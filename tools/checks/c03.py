"""C03  A device is recognised only via its own identifier and only when authenticated."""
import os
from vlib import Check, read_ndjson, write_ndjson, main, Undecided, tla_unquote

PKG = "internal/dnssvc/internal/devicefinder"

SANITY = [
    ("DeviceAuth_sanity.cfg", "DoHOnlyNeverElsewhere", "DoH-only check skipped outside DoH"),
    ("DeviceAuth_sanity_pw.cfg", "BadPasswordNeverRecognised", "password mismatch ignored"),
    ("DeviceAuth_sanity_empty.cfg", "BadPasswordNeverRecognised", "empty password treated as no userinfo"),
    ("DeviceAuth_sanity_member.cfg", "RecognisedImpliesLiveMembership", "profile membership not re-inspected"),
    ("DeviceAuth_sanity_prec.cfg", "PrecedenceRespected", "unknown EDNS id falls back to the addresses"),
]

VEC_FIELDS = ["proto", "path", "ui", "sni", "edns", "local", "remote", "linked", "bindif", "dd", "auth", "live", "att",
              "autodev"]


def slim(e):
    return {"v": e["v"],
            "find": {k: e["find"][k] for k in ("kind", "dev", "prof")},
            "down": {k: e["down"][k] for k in ("served", "kind", "dev", "prof")},
            "mwerr": e["mwerr"]}


def describe(e):
    c, f, d = e["conc"], e["find"], e["down"]
    v = e["v"]
    return ("vector %s | server[%s] device_domains=%s db[%s dev=%s/%s linked=%s dedicated=%s human=%s pw=%r oth=%s/%s] "
            "request[url=%r userinfo=%s sni=%r edns=%s laddr=%s raddr=%s] -> Find=%s dev=%s(%s) prof=%s(%s) err=%r; "
            "downstream served=%s result=%s dev=%s prof=%s mw_err=%s" % (
                " ".join("%s=%s" % (k, v[k]) for k in VEC_FIELDS), c["server"], c["domains"], c["db"], c["dev_id"],
                c["pdev"], c["dev_linked"], c["dev_dedicated"], c["dev_human"], c["dev_password"], c["oth_id"],
                c["poth"], c["url"],
                ("%r:%r(set=%s)" % (c["user"], c["pass"], c["pass_set"])) if c["has_userinfo"] else "absent",
                c["sni"], c["edns"], c["laddr"], c["raddr"], f["kind"], f["dev"], f["dev_id"], f["prof"],
                f["prof_id"], f["err"], d["served"], d["kind"], d["dev"], d["prof"], e["mwerr"]))


def run(c: Check):
    th = c.thorough
    c.tlc_mc("DeviceAuth", "DeviceAuth_mc.cfg",
             name="factored product of abstract vectors: contract, implementation-shaped decision, 12 invariants")
    if th:
        c.tlc_mc("DeviceAuth", "DeviceAuth_mc_big.cfg", timeout=1500,
                 name="complete unfactored product (every field free)")
    c.cov["exhaustive"] = True
    for cfg, inv, what in SANITY:
        c.tlc_mc("DeviceAuth", cfg, expect_violation=inv, count=False, name="sanity: %s" % what)

    # ---- binding lemma: the `sni` field of the vectors is the server name of the TLS handshake
    outs, _ = c.go_harness("internal/dnsserver", "^TestVerifC03ServerName$", files=["c03sni_test.go", "vlab_test.go"], timeout=600)
    sev = read_ndjson(outs)
    reached = [e for e in sev if e["reached"]]
    if len(reached) < 30 or not any(e["sni_sent"] == "" and e["host_hdr"] for e in reached):
        raise Undecided("server-name harness vacuous: %d of %d requests reached the handler" % (len(reached), len(sev)))
    spath = os.path.join(c.scratch, "c03sni.ndjson")
    write_ndjson(spath, sev)
    rs = c.tlc_trace("TraceServerName", "TraceServerName.cfg", spath, timeout=300)
    if rs.tuples("STUCK"):
        raise Undecided("server-name trace spec stuck")
    c.cov["traces_validated_against_impl"] += len(sev) - len(rs.tuples("NONCONF"))
    for e in sev:
        c.count_case(("sni", e["t"], e["sni_sent"], e["host_hdr"]), nontrivial=e["sni_sent"] != e["host_hdr"])
    for t in rs.tuples("NONCONF"):
        e = sev[int(t[0]) - 1]
        c.violation({"kind": "server-name", "t": e["t"]},
                    "C03 %s request with TLS server name %r and Host header %r: the handler was given TLS server name %r "
                    "(URL %r): %s" % (e["t"], e["sni_sent"], e["host_hdr"], e["sni_seen"], e["url_seen"], t[1]), e)

    env = {"VERIF_ROUNDS": 5 if th else 1, "VERIF_RANDOM": 150000 if th else 8000}
    out, _ = c.go_harness(PKG, "^TestVerifC03$", env=env, files=["c03_test.go"], timeout=1500)
    ev = read_ndjson(out)
    if len(ev) < 1000:
        raise Undecided("only %d executions recorded" % len(ev))

    # vacuity: every class of every field and every result kind must occur
    seen = {f: set() for f in VEC_FIELDS}
    kinds, devs = {}, {}
    for e in ev:
        for f in VEC_FIELDS:
            seen[f].add(e["v"][f])
        kinds[e["find"]["kind"]] = kinds.get(e["find"]["kind"], 0) + 1
        devs[e["find"]["dev"]] = devs.get(e["find"]["dev"], 0) + 1
        if e["find_calls"] != 1:
            raise Undecided("Find was called %d times for event %d" % (e["find_calls"], e["id"]))
    want = {"proto": 5, "path": 6, "ui": 7, "sni": 9, "edns": 5, "local": 4, "remote": 3, "auth": 3}
    vacuous = []
    for f, n in want.items():
        if len(seen[f]) != n:
            vacuous.append("field %s only saw %s" % (f, sorted(seen[f])))
    for k in ("ok", "anon", "authfail", "drop", "error"):
        if kinds.get(k, 0) < 10:
            vacuous.append("result kind %s seen %d times" % (k, kinds.get(k, 0)))
    for d in ("dev", "oth", "auto"):
        if devs.get(d, 0) < 10:
            vacuous.append("device %s recognised %d times" % (d, devs.get(d, 0)))

    bad, div = [], []
    CHUNK = 60000
    for off in range(0, len(ev), CHUNK):
        part = ev[off:off + CHUNK]
        path = os.path.join(c.scratch, "c03_%d.ndjson" % off)
        write_ndjson(path, [slim(e) for e in part])
        r = c.tlc_trace("TraceDeviceAuth", "TraceDeviceAuth.cfg", path, timeout=1500, heap="4g")
        if r.tuples("STUCK"):
            raise Undecided("trace spec stuck: %s" % r.tuples("STUCK"))
        if not r.ok and not r.tuples("NONCONF"):
            raise Undecided("trace run failed:\n%s" % r.out[-3000:])
        bad += [(off + int(t[0]) - 1, t[1]) for t in r.tuples("NONCONF")]
        div += [(off + int(t[0]) - 1, t[1]) for t in r.tuples("DIVERGE")]
    badidx = {i for i, _ in bad}
    c.cov["traces_validated_against_impl"] += len(ev) - len(badidx)

    for e in ev:
        v = e["v"]
        c.count_case([v[f] for f in VEC_FIELDS], nontrivial=v["proto"] != "DNSCrypt")
    c.cov["rule"] = ("one real Find call (fresh profiledb.Default filled by scripted syncs, real devicefinder.Default, "
                     "real ratelimitmw around it) per abstract vector of the factored product, plus seeded vectors of "
                     "the unfactored product; distinct by abstract vector; non-trivial = transport can carry an "
                     "identifier (not DNSCrypt)")
    c.cov["result_kinds"] = kinds
    c.cov["recognised_devices"] = devs
    ok = [e for e in ev if e["find"]["kind"] == "ok"]
    af = [e for e in ev if e["find"]["kind"] == "authfail"]
    c.sample([{k: e[k] for k in ("v", "conc", "find", "down")} for e in ok[:2] + af[:2]])

    # a mismatch with the implementation-shaped decision that stays inside the
    # contract is not a verdict about the property; it is reported in the evidence
    only_div = [(i, x) for i, x in div if i not in badidx]
    if only_div:
        c.notes.append("%d executions differ from ImplFind but stay inside the contract, e.g. %s (model expected %s)" % (
            len(only_div), describe(ev[only_div[0][0]])[:700], only_div[0][1]))
    c.cov["impl_model_divergences_within_contract"] = len(only_div)

    seen_sig = set()
    for i, reasons in bad:
        e = ev[i]
        v = e["v"]
        sig = {"kind": "nonconf", "proto": v["proto"], "auth": v["auth"], "result": e["find"]["kind"],
               "reason": tla_unquote(reasons)[:80]}
        key = tuple(sorted(sig.items()))
        if key in seen_sig:
            continue
        seen_sig.add(key)
        c.violation(sig, "C03 %s: %s" % (reasons, describe(e)), e)
    if vacuous and not c.violations:
        raise Undecided("vacuous run: " + "; ".join(vacuous))
    c.assumptions += [
        "the abstraction function (concrete request -> class) is the concretiser's inverse by construction; ids are "
        "generated so that classes do not overlap (at most one hyphen in device ids, configured domains lower-case)",
        "bcrypt itself (golang.org/x/crypto) is trusted; hashes are generated at MinCost",
        "authentication enabled implies a bcrypt hash is set (a device with auth enabled and no hash accepts any "
        "password by design of backendpb)",
        "transport servers fill dnsserver.RequestInfo (URL, Userinfo from the Authorization header, TLS server name) "
        "as in serverhttps.go/serverdnstcp.go/serverquic.go; the harness builds that structure directly",
        "TLC, SANY, CommunityModules Json",
    ]


if __name__ == "__main__":
    main("C03", run)
