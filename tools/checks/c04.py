"""C04  Cached answers equal fresh answers and never outlive their TTL."""
import json
import os
from vlib import Check, read_ndjson, main, Undecided, VERIF

GCACHE = "/root/go/pkg/mod/github.com/bluele/gcache@v0.0.2"


def common(c, pkgname, pkgdir):
    """the shared harness part, generated for the package"""
    src = open(os.path.join(VERIF, "harness", "common", "c04common.go.tmpl")).read().replace("PKGNAME", pkgname)
    dst = os.path.join(c.scratch, "c04common_%s_test.go" % pkgname)
    open(dst, "w").write(src)
    from vlib import REPO
    return {os.path.join(REPO, pkgdir, "zz_verif_c04common_test.go"): dst}


def clock_overlay(c, files):
    ov = c.rewrite_clock(files + [GCACHE + "/clock.go", GCACHE + "/lru.go"])
    return ov


def report(c, fails, which):
    for sg, idx, reason in fails:
        e = sg[idx]
        if e["ev"] != "Query":
            raise Undecided("trace stuck at a non-query event: %s" % json.dumps(e)[:300])
        hist = [(x["ev"], x.get("d") if x["ev"] == "Tick" else x.get("key"), x.get("up")) for x in sg[max(1, idx - 8):idx + 1]]
        kind = "miss-differs" if e["up"] else "hit-unexplained"
        sig = {"kind": kind, "cache": which, "expired_ttl": (not e["up"]) and any(t > 0 for t in e["got"]["ttls"])
               and e["got"]["digest"] == e["fresh"]["digest"]}
        c.violation(sig, "C04 [%s] %s at now=%s key=%s: got rcode=%s flags=%s ttls=%s digest=%s | fresh rcode=%s flags=%s "
                         "ttls=%s digest=%s | cacheable=%s life=%ss override=%s; recent: %s" % (
                             which, kind, e["now"], e["key"], e["got"]["rcode"], e["got"]["flags"], e["got"]["ttls"],
                             e["got"]["digest"][:200], e["fresh"]["rcode"], e["fresh"]["flags"], e["fresh"]["ttls"],
                             e["fresh"]["digest"][:200], e["cacheable"], e["life"], sg[0].get("override"), hist),
                    {"segment": sg[:idx + 1], "reason": reason})


def _ages(c, pkg, test, ov):
    """The item-level part calls unexported functions; a tree in which their signatures differ cannot be driven
    that way -- the middleware-level harness (public API only) still decides."""
    try:
        out, _ = c.go_harness(pkg, test, rewrites=ov, files=["c04_test.go", "c04ages_test.go"])
    except Undecided as e:
        if "build failed" not in str(e):
            raise
        c.notes.append("%s %s does not build against this tree (internal signatures differ); item-level part skipped" % (pkg, test))
        return []
    return read_ndjson(out)


def run(c: Check):
    th = c.thorough
    c.tlc_mc("CacheCore", "CacheCore_mc.cfg", coverage=th, name="3 keys, TTL 1-3 s, quarter-second clock, horizon 4 s")
    c.tlc_mc("CacheCore", "CacheCore_sanity_round.cfg", expect_violation="TTLBound",
             name="sanity: full original TTL when the remainder rounds to zero")
    c.tlc_mc("CacheCore", "CacheCore_sanity_key.cfg", expect_violation="HitEqualsFresh",
             name="sanity: a key that forgets part of the question")
    behs = c.tlc_sim("CacheCore", "CacheCore_sim.cfg", num=300 if th else 60, depth=60 if th else 40)
    inp = os.path.join(c.scratch, "c04_behs.json")
    json.dump([[{"a": s["a"], "d": s["d"], "k": s["k"]} for s in b if s["a"] != "Evict"] for b in behs], open(inp, "w"))
    nrand = 3000 if th else 250
    # simple cache (dnsserver module)
    ov = clock_overlay(c, ["internal/dnsserver/cache/cache.go"])
    ov.update(common(c, "cache", "internal/dnsserver/cache"))
    out, _ = c.go_harness("internal/dnsserver/cache", "^TestVerifC04Simple$", rewrites=ov, files=["c04_test.go"],
                          env={"VERIF_IN": inp, "VERIF_NRANDOM": nrand})
    ev = read_ndjson(out)
    ev_ages = _ages(c, "internal/dnsserver/cache", "^TestVerifC04SimpleAges$", ov)
    report(c, c.validate_segments("TraceCacheCore", "TraceCacheCore.cfg", ev + ev_ages, timeout=1800), "simple")
    # ECS-aware cache
    ov = clock_overlay(c, ["internal/ecscache/cache.go"])
    ov.update(common(c, "ecscache", "internal/ecscache"))
    out3, _ = c.go_harness("internal/ecscache", "^TestVerifC04ECS$", rewrites=ov, files=["c04_test.go"],
                           env={"VERIF_IN": inp, "VERIF_NRANDOM": nrand})
    ev3 = read_ndjson(out3)
    ev4 = _ages(c, "internal/ecscache", "^TestVerifC04ECSAges$", ov)
    report(c, c.validate_segments("TraceCacheCore", "TraceCacheCore.cfg", ev3 + ev4, timeout=1800), "ecs")
    hits = 0
    late = 0
    for e in ev + ev_ages + ev3 + ev4:
        if e["ev"] == "Query":
            c.count_case((e["cache"], e["key"], e["now"], e["up"], e["got"]["ttls"]), nontrivial=not e["up"])
            if not e["up"]:
                hits += 1
                if e["got"]["ttls"] and max(e["got"]["ttls"]) == 0:
                    late += 1
    if hits < 50 or late < 3:
        raise Undecided("vacuous: %d cache hits, %d at the very end of an entry's life" % (hits, late))
    c.cov["rule"] = ("a case is one query inside a history (queries over names sharing qtype/qclass/DO variants, "
                     "interleaved with clock advances of 0.25-30 s) answered by the warm real cache and by a cold "
                     "instance; non-trivial = a cache hit; distinct by (cache, key, time, served TTLs)")
    c.sample([e for e in ev if e["ev"] == "Query" and not e["up"]][:2] + [e for e in ev3 if e["ev"] == "Query" and not e["up"]][:1])
    c.assumptions += [
        "virtual clock: time.Now/Since in cache.go, ecscache/cache.go and bluele/gcache (clock.go, lru.go) rewritten to "
        "VerifNow by an overlay; the rewrite fails closed",
        "the scripted upstream's answer is a function of (lower-cased name, qtype, qclass, DO); AA is never set",
        "cacheability oracle per the property's list; lifetime = lowest record TTL (SERVFAIL capped at 30 s)",
        "TLC, SANY, CommunityModules Json",
    ]


if __name__ == "__main__":
    main("C04", run)
