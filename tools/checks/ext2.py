"""EXT2  (extension, not a listed property) statistics collectors lose and duplicate nothing they are not
documented to lose: rulestat.HTTP (RuleStat.tla) and dnsdb.Default + buffer + CSV handler (DNSDB.tla)."""
import json
import os
import re
from concurrent.futures import ThreadPoolExecutor
from vlib import Check, read_ndjson, main, Undecided, REPO

DNSDB_DECL = """package dnsdb

// Hooks of the EXT2 harness (declared by tools/checks/ext2.py; identity unless a test installs a gate).
var verifLoaded = func(b *buffer) *buffer { return b }
var verifSwapped = func(b *buffer) *buffer { return b }
"""


class Lanes:
    """Every lane (one harness run + its trace validation) is run even if an earlier one could not
    be decided: a verdict about the real code outranks a failure of the machinery."""

    def __init__(self, c):
        self.c, self.fails, self.races, self.undecided = c, [], [], []

    def run(self, name, fn):
        try:
            self.fails += [(name,) + f for f in fn()]
        except Undecided as e:
            r = repo_race(str(e))
            if r:
                self.races.append((name, r))
            else:
                self.undecided.append((name, e))
        except Exception as e:  # a fault of this script is never a verdict
            self.undecided.append((name, Undecided("internal error in lane: %r" % (e,))))


def repo_race(msg):
    """A data race (or the runtime's concurrent-map abort) both of whose accesses are in repository
    code is a verdict; one that involves the harness' own accesses is a fault of the harness."""
    m = re.search(r"fatal error: concurrent map [^\n]*", msg)
    i = msg.find("WARNING: DATA RACE")
    if i < 0 and not m:
        return None
    block = msg[i:i + 5000] if i >= 0 else msg[m.start():m.start() + 3000]
    sides = re.split(r"\n(?=Previous (?:read|write) at|Goroutine \d+ \()", block)
    inner = []
    for s in sides[:2] if i >= 0 else [block]:
        fr = [f for f in re.findall(r"^\s+(/\S+\.go):(\d+)", s, re.M) if f[0].startswith(REPO + os.sep)]
        if not fr:
            return None
        inner.append("%s:%s" % (os.path.relpath(fr[0][0], REPO), fr[0][1]))
    if any("zz_verif_" in f for f in inner):
        return None
    return {"frames": inner, "report": block[:3000]}


def run(c: Check):
    th = c.thorough
    lanes = Lanes(c)
    # the exhaustive and sanity runs need nothing from the harnesses: they run in the background
    # (TLC only; the Go side and the trace validations stay on this thread)
    with ThreadPoolExecutor(max_workers=3) as ex:
        futs = [ex.submit(c.tlc_mc, *a, **kw) for a, kw in design_runs(th)]
        try:
            rulestat(c, th, lanes)
            dnsdb(c, th, lanes)
        except Undecided:
            raise
        except Exception as e:  # a fault of this script is never a verdict
            raise Undecided("internal error: %r" % (e,))
        finally:
            done = [f.exception() for f in futs]
        for e in done:
            if e is not None:
                raise e
    if th:
        c.cov["exhaustive"] = True
    c.cov["rule"] = ("a case is one action sequence executed on the real rulestat.HTTP (Collect/RefreshSwap/UploadOK/"
                     "DropFailed) or the real dnsdb.Default (RecLoad/RecAdd/Record/RecordIgnored/Swap/All/Dump); "
                     "non-trivial = contains a completed upload resp. a dump; distinct by the sequence of actions with "
                     "their abstract arguments; evaluations = events validated by TLC")
    for what, seg, idx, reason in lanes.fails:
        e = seg[idx]
        acts = [_act(x) for x in seg[1:idx + 1]]
        c.violation({"kind": "trace-rejected", "component": what, "reason": reason.split()[0], "last": e.get("ev")},
                    "EXT2 %s trace rejected (%s) at %s; actions so far: %s; observed %s" % (
                        what, reason, e.get("ev"), acts[-14:], json.dumps(e, ensure_ascii=False)[:700]),
                    {"component": what, "segment": seg, "offending_index": idx, "reason": reason})
    for what, r in lanes.races:
        c.violation({"kind": "data-race", "component": what, "frames": "|".join(r["frames"])},
                    "EXT2 %s: unsynchronised accesses in repository code under the free-running stress: %s" % (
                        what, " vs ".join(r["frames"])), r)
    if lanes.undecided:
        if not c.violations:
            raise Undecided("lane %s: %s" % lanes.undecided[0])
        for name, e in lanes.undecided:
            c.notes.append("lane %s could not be decided: %s" % (name, str(e)[:300]))
    c.assumptions += [
        "rulestat: the POST body is the only way hits leave the collector; an upload attempt whose request reached the "
        "endpoint counts as that set's single attempt whatever the endpoint answers",
        "dnsdb: the CSV written by ServeHTTP is the only way hits leave the database; rows are attributed to keys by "
        "the answer values the harness chose (unique per key and response variant)",
        "dnsdb split steps (Load | add, Swap | all) are observed through two identity hooks inserted by a textual "
        "overlay rewrite of dnsdb.go; without the anchors the split-step lane is skipped (noted), the rest still runs",
        "TLC, SANY, CommunityModules Json; Go race detector for the free-running stress",
    ]


def _act(x):
    return tuple(str(x.get(k, "")) for k in ("ev", "l", "t", "r", "p", "k", "d") if x.get(k, "") != "")


def _count(c, events, nontrivial_evs):
    seg = []

    def flush():
        if seg:
            c.count_case(seg, nontrivial=any(x[0] in nontrivial_evs for x in seg))
            c.cov["evaluations"] += len(seg) - 1
    for e in events:
        if e["ev"] == "Reset":
            flush()
            seg = []
        else:
            seg.append(_act(e))
    flush()


def design_runs(th):
    w = 4
    runs = [
        (("RuleStat", "RuleStat_mc.cfg"), dict(workers=w, name="2 texts, 2 concurrent refreshes, 5 collects")),
        (("DNSDB", "DNSDB_mc.cfg"), dict(workers=w, name="3 keys, max 2, 2 recorders, 2 dumps, 3 records")),
        (("DNSDB", "DNSDB_table_mc.cfg"), dict(workers=w, name="decision table: all 60 480 abstract responses")),
        (("RuleStat", "RuleStat_sanity_nonatomic.cfg"), dict(workers=1, expect_violation="Conservation", count=False)),
        (("RuleStat", "RuleStat_sanity_alllists.cfg"), dict(workers=1, expect_violation="Conservation", count=False)),
        (("RuleStat", "RuleStat_sanity_keepset.cfg"), dict(workers=1, expect_violation="Conservation", count=False)),
        (("DNSDB", "DNSDB_sanity_hitswhenfull.cfg"), dict(workers=1, expect_violation="FrozenWhenFull", count=False)),
        (("DNSDB", "DNSDB_sanity_offbyone.cfg"), dict(workers=1, expect_violation="SizeBound", count=False)),
        (("DNSDB", "DNSDB_sanity_servenew.cfg"), dict(workers=1, expect_violation="Conservation", count=False)),
    ]
    if th:
        runs += [
            (("RuleStat", "RuleStat_mc_big.cfg"), dict(workers=w, name="3 texts, 2 refreshes, 7 collects")),
            (("DNSDB", "DNSDB_mc_big.cfg"), dict(workers=w, name="3 keys, max 2, 2 recorders, 2 dumps, 4 records")),
        ]
    return runs


# ------------------------------------------------------------------ rulestat
def rulestat(c, th, lanes):
    behs = c.tlc_sim("RuleStat", "RuleStat_sim.cfg", num=600 if th else 40, depth=34 if th else 26)
    steps = [[{"a": s["a"], "l": s["l"], "t": s["t"], "r": s["r"]} for s in b] for b in behs]
    inp = os.path.join(c.scratch, "ext2_rs_behs.json")
    json.dump(steps, open(inp, "w"))
    got = {}

    def stepper():
        out, _ = c.go_harness("internal/rulestat", "^TestVerifEXT2Stepper$", files=["ext2_test.go"],
                              env={"VERIF_IN": inp, "VERIF_NRANDOM": 4000 if th else 150})
        got["ev"] = ev = read_ndjson(out)
        return c.validate_segments("TraceRuleStat", "TraceRuleStat.cfg", ev)

    def stress():
        out, _ = c.go_harness("internal/rulestat", "^TestVerifEXT2Stress$", files=["ext2_test.go"], race=True,
                              env={"VERIF_NSTRESS": 60 if th else 6})
        ev2 = read_ndjson(out)
        if not ev2 or any(e["uploads"] < 10 for e in ev2):
            raise Undecided("rulestat stress vacuous: %s" % [e.get("uploads") for e in ev2])
        c.cov["evaluations"] += len(ev2)
        return c.validate_segments("TraceRuleStat", "TraceRuleStat.cfg", ev2, is_reset=lambda e: True)

    def vacuity():
        ev = got.get("ev", [])
        modes = set(e["mode"] for e in ev if e["ev"] == "DropFailed")
        if ev and not {"500", "204", "hangup"} <= modes:
            raise Undecided("rulestat stepper: failure modes seen %s" % sorted(modes))
        return []

    lanes.run("rulestat", stepper)
    lanes.run("rulestat-stress", stress)
    lanes.run("rulestat-vacuity", vacuity)
    ev = got.get("ev", [])
    _count(c, ev, ("UploadOK", "DropFailed"))
    c.sample({"rulestat": [_act(e) for e in ev[1:20]]})
    # candidate findings (recorded, not verdicts)
    shapes = set(e["shape"] for e in ev if e["ev"] == "RefreshSwap")
    doc = _doc_filters_shape()
    if doc and shapes and shapes != {doc}:
        c.notes.append("candidate finding (documentation): doc/externalhttp.md shows \"filters\" as a JSON %s, the "
                       "collector (and its own test) sends a JSON %s" % (doc, "/".join(sorted(shapes))))
    stale = [e for e in ev if e["ev"] == "RefreshSwap" and e["gauge"] != e["hits"]]
    if stale:
        c.notes.append("candidate finding (metric): after Refresh the gauge stats_cache_size keeps its last value "
                       "(%d) although the current set is empty, until the next counted hit (seen %d times)" % (
                           stale[0]["gauge"], len(stale)))


def _doc_filters_shape():
    p = os.path.join(REPO, "doc", "externalhttp.md")
    if not os.path.exists(p):
        return None
    m = re.search(r'id="rulestat".*?```json\s*\{\s*"filters"\s*:\s*([\[{])', open(p).read(), re.S)
    if not m:
        return None
    return "array" if m.group(1) == "[" else "object"


# ------------------------------------------------------------------ dnsdb
def _dnsdb_overlay(c):
    """the two gates of the split-step lane; each hook is optional (a tree whose
    source no longer has the anchor is still checked, without that lane)"""
    ov = c.rewrite_sub("internal/dnsdb/dnsdb.go", [], decl=DNSDB_DECL)
    del ov[os.path.join(REPO, "internal/dnsdb/dnsdb.go")]
    hooks = {}
    for name, pat, rep in (("LOAD", r"db\.buffer\.Load\(\)\.add\(", "verifLoaded(db.buffer.Load()).add("),
                           ("SWAP", r"=\s*prevBuf\.all\(\)", "= verifSwapped(prevBuf).all()")):
        try:
            ov = c.rewrite_sub("internal/dnsdb/dnsdb.go", [(pat, rep, 1)], overlay=ov)
            hooks[name] = 1
        except Undecided as e:
            hooks[name] = 0
            c.notes.append("dnsdb split-step lane without the %s gate: %s" % (name, str(e)[:160]))
    return ov, hooks


def dnsdb(c, th, lanes):
    behs = c.tlc_sim("DNSDB", "DNSDB_sim.cfg", num=600 if th else 40, depth=36 if th else 28)
    steps = [[{"a": s["a"], "p": s["p"], "k": s["k"], "rs": s["rs"], "d": s["d"]} for s in b] for b in behs]
    inp = os.path.join(c.scratch, "ext2_db_behs.json")
    json.dump(steps, open(inp, "w"))
    ov, hooks = _dnsdb_overlay(c)
    henv = {"VERIF_HOOK_LOAD": hooks["LOAD"], "VERIF_HOOK_SWAP": hooks["SWAP"]}
    got = {}

    def stepper():
        out, _ = c.go_harness("internal/dnsdb", "^TestVerifEXT2Stepper$", files=["ext2_test.go"], rewrites=ov,
                              env=dict(henv, VERIF_IN=inp, VERIF_NRANDOM=5000 if th else 200, VERIF_SIMMAX=3))
        got["ev"] = ev = read_ndjson(out)
        return c.validate_segments("TraceDNSDB", "TraceDNSDB.cfg", ev)

    def table():
        out, _ = c.go_harness("internal/dnsdb", "^TestVerifEXT2Table$", files=["ext2_test.go"], rewrites=ov,
                              env=dict(henv, VERIF_NTABLE=0 if th else 1500))
        got["ev1"] = ev1 = read_ndjson(out)
        return c.validate_segments("TraceDNSDB", "TraceDNSDB.cfg", ev1)

    def stress():
        out, _ = c.go_harness("internal/dnsdb", "^TestVerifEXT2Stress$", files=["ext2_test.go"], rewrites=ov,
                              race=True, env=dict(henv, VERIF_NSTRESS=60 if th else 6))
        got["ev2"] = ev2 = read_ndjson(out)
        c.cov["evaluations"] += len(ev2)
        return c.validate_segments("TraceDNSDB", "TraceDNSDB.cfg", ev2, is_reset=lambda e: True)

    def vacuity():
        # the interesting schedules and classes must have been exercised
        ev, ev1 = got.get("ev", []), got.get("ev1", [])
        late = sum(1 for e in ev if e["ev"] == "RecAdd" and e["buf"].get(e["k"], 0) != e["into"])
        fullseen = sum(1 for e in ev if e["ev"] == "Record" and e["maxSize"] <= 3 and
                       sum(1 for n in e["buf"].values() if n > 0) >= e["maxSize"] > 0)
        acc = sum(1 for e in ev1 if e["ev"] == "Record" and sum(e["buf"].values()) > 0)
        if ev and hooks["LOAD"] and hooks["SWAP"] and late == 0:
            raise Undecided("dnsdb stepper vacuous: no Record finished on a buffer other than the current one")
        if (ev and fullseen == 0) or (ev1 and acc == 0):
            raise Undecided("dnsdb harness vacuous: full buffers seen %d, accepted table vectors %d" % (fullseen, acc))
        c.notes.append("dnsdb: %d parked Record calls finished on a buffer other than the current one (the window in "
                       "which a hit is served by the overlapping dump or lost); candidate finding (concurrency): under "
                       "the free-running stress hits recorded while a dump runs were lost, per round %s (the buffer is "
                       "documented as approximate; the model has the window and bounds the loss)" % (
                           late, [sum(e["late"].values()) for e in got.get("ev2", [])]))
        return []

    lanes.run("dnsdb", stepper)
    lanes.run("dnsdb-table", table)
    lanes.run("dnsdb-stress", stress)
    lanes.run("dnsdb-vacuity", vacuity)
    _count(c, got.get("ev", []), ("All", "Dump"))
    _count(c, got.get("ev1", []), ("Dump",))
    c.sample({"dnsdb": [_act(e) for e in got.get("ev", [])[1:20]]})
    c.notes.append("candidate finding (doc comment vs code): the doc comment of dnsdb.buffer says a full buffer 'can "
                   "only increase the hits of the previous records'; buffer.add returns before counting anything once "
                   "len(entries) >= maxSize.  The model follows the code (FrozenWhenFull); doc/ promises nothing "
                   "about hits of a full buffer")


if __name__ == "__main__":
    main("EXT2", run)
