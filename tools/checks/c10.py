"""C10  Access-blocked clients and names are dropped silently and leave no trace."""
import os
import re

from vlib import Check, REPO, HARNESS, read_ndjson, write_ndjson, main, Undecided

EFFECTS = ["written", "resolved", "filtered", "cached", "logged", "billed", "rulestat", "dnsdb"]


def vec_key(v):
    return "gip%d/%s/prof%d/an%d/bn%d/aa%d/ba%d/%s" % (v["gip"], v["ghost"], v["prof"], v["anet"], v["bnet"],
                                                        v["aasn"], v["basn"], v["phost"])


def reachable_vectors():
    """The abstract vectors a request can realise (no profile => profile classes fixed)."""
    res = set()
    for gip in (0, 1):
        for gh in ("none", "block", "exc"):
            res.add("gip%d/%s/prof0/an0/bn0/aa0/ba0/none" % (gip, gh))
            for m in range(16):
                for ph in ("none", "block", "exc"):
                    res.add("gip%d/%s/prof1/an%d/bn%d/aa%d/ba%d/%s" % (gip, gh, m & 1, (m >> 1) & 1, (m >> 2) & 1,
                                                                        (m >> 3) & 1, ph))
    return res


def blocked(v):
    """Only used for the vacuity accounting below, never for the verdict."""
    host = lambda c: c == "block"  # noqa: E731
    return bool(v["gip"] or host(v["ghost"]) or (v["prof"] and (
        (not v["anet"] and not v["aasn"] and (v["bnet"] or v["basn"])) or host(v["phost"]))))


def run(c: Check):
    th = c.thorough
    # ---- design level: the complete abstract product and the pipeline
    c.tlc_mc("Access", "Access_mc.cfg", coverage=th,
             name="2x3x2x2^4x3 = 576 abstract vectors x pipeline stages (cache hit/miss, query log on/off)")
    c.cov["exhaustive"] = True
    for cfg, inv, what in (
            ("Access_sanity.cfg", "AllowOverridesBlock", "blocked ASN consulted before the allow-lists"),
            ("Access_sanity2.cfg", "BlockedLeavesNoTrace", "drop path still bills"),
            ("Access_sanity3.cfg", "ImplWithinContract", "exception rule does not cancel the block"),
            ("Access_sanity4.cfg", "BlockedLeavesNoTrace", "drop path answers REFUSED")):
        c.tlc_mc("Access", cfg, expect_violation=inv, count=False, name="sanity: " + what)

    # ---- code level
    per = 8 if th else 2
    scen_unit = 15 if th else 5
    scen_stack = 30 if th else 6
    out_u, _ = c.go_harness("internal/access", "^TestVerifC10Unit$", files=["c10_test.go", "c10_gen_test.go"],
                            env={"VERIF_SCEN": scen_unit, "VERIF_PER": per})
    ev = read_ndjson(out_u)
    n_unit = len(ev)

    # the generator is shared: same file, package clause rewritten
    gen = open(os.path.join(HARNESS, "internal/access/c10_gen_test.go")).read()
    gen, n = re.subn(r"^package access$", "package dnssvc", gen, count=1, flags=re.M)
    if n != 1:
        raise Undecided("cannot rewrite the package clause of c10_gen_test.go")
    gen_copy = os.path.join(c.scratch, "c10_gen_dnssvc_test.go")
    with open(gen_copy, "w") as f:
        f.write(gen)
    out_s, _ = c.go_harness("internal/dnssvc", "^TestVerifC10Stack$", files=["c10_test.go"],
                            extra_overlay={os.path.join(REPO, "internal/dnssvc/zz_verif_c10_gen_test.go"): gen_copy},
                            env={"VERIF_SCEN": scen_stack, "VERIF_PER": per})
    ev += read_ndjson(out_s)
    if n_unit < 1000 or len(ev) - n_unit < 1000:
        raise Undecided("too few lines recorded: %d unit, %d stack" % (n_unit, len(ev) - n_unit))

    path = os.path.join(c.scratch, "c10.ndjson")
    write_ndjson(path, ev)
    r = c.tlc_trace("TraceAccess", "TraceAccess.cfg", path, timeout=1200)
    if r.tuples("STUCK"):
        raise Undecided("trace spec stuck: %s" % r.tuples("STUCK"))
    bad = r.tuples("NONCONF")
    if not r.ok and not bad:
        raise Undecided("trace TLC run failed:\n%s" % r.out[-3000:])
    c.cov["traces_validated_against_impl"] += len(ev) - len(bad)

    # ---- vacuity accounting
    seen = {"unit_global": set(), "unit_profile": set(), "stack": set()}
    eff_seen = set()
    n_blocked = n_pass = 0
    via = {}
    for e in ev:
        k = vec_key(e["vec"])
        seen[e["level"]].add(k)
        cc = e["conc"]
        c.count_case((e["level"], k, cc["addr"], cc["mapped"], cc["zone"], cc["asn_known"], cc["asn"], cc["name"], cc["qtype"],
                      cc["anets"], cc["bnets"], cc["aasns"], cc["basns"], cc["prules"], cc["via"]),
                     nontrivial=True)
        if e["level"] == "stack":
            via[cc["via"]] = via.get(cc["via"], 0) + 1
            if blocked(e["vec"]):
                n_blocked += 1
            else:
                n_pass += 1
                eff_seen |= set(e["eff"])
    missing = reachable_vectors() - seen["stack"]
    if missing:
        raise Undecided("vacuous: %d abstract vectors never exercised on the handler stack, e.g. %s" % (
            len(missing), sorted(missing)[:3]))
    if len(seen["unit_profile"]) < 16 * 3:
        raise Undecided("vacuous: only %d profile vectors at the unit level" % len(seen["unit_profile"]))
    if set(EFFECTS) - eff_seen:
        raise Undecided("vacuous: effects never observed for any processed request (recorders broken?): %s" %
                        sorted(set(EFFECTS) - eff_seen))
    n_zoned = sum(1 for e in ev if e["level"] == "stack" and e["conc"]["zone"])
    n_mapped = sum(1 for e in ev if e["level"] == "stack" and e["conc"]["mapped"])
    if n_zoned < 10 or n_mapped < 10:
        raise Undecided("vacuous: only %d zoned link-local and %d v4-mapped clients on the stack" % (n_zoned, n_mapped))
    c.notes.append("stack lines with a zoned link-local client: %d, with a v4-mapped client: %d" % (n_zoned, n_mapped))
    if n_blocked < 200 or n_pass < 200:
        raise Undecided("vacuous: %d blocked / %d processed requests" % (n_blocked, n_pass))
    c.notes.append("stack lines: %d blocked by contract, %d not; per entry point: %s; unit lines: %d" % (
        n_blocked, n_pass, via, n_unit))
    c.cov["rule"] = ("one line per call (unit: Global.IsBlockedIP, Global.IsBlockedHost, DefaultProfile.IsBlocked) or "
                     "per request through a dnssvc.NewHandlers handler; every one of the 294 realisable abstract "
                     "vectors x scenarios (global configuration) x concretisations; distinct by (level, vector, "
                     "client address, v4-mapped?, ASN, name as sent, type, profile lists and rules, entry point)")
    for smp in ([e for e in ev if e["level"] == "stack" and blocked(e["vec"])][:2] +
                [e for e in ev if e["level"] == "stack" and not blocked(e["vec"])][:1] +
                [e for e in ev if e["level"] == "unit_profile"][:1]):
        c.sample(smp)

    if bad:
        c.notes.append("non-conforming lines: %d, of which with a zoned client address: %d" % (
            len(bad), sum(1 for t in bad if ev[int(t[0]) - 1]["conc"]["zone"])))
    # report handler-stack lines first (the log shows the first twenty)
    bad.sort(key=lambda t: (ev[int(t[0]) - 1]["level"] != "stack", int(t[0])))
    for t in bad:
        e = ev[int(t[0]) - 1]
        reasons = t[1]
        cc = e["conc"]
        c.violation({"kind": "nonconf", "level": e["level"], "vec": vec_key(e["vec"]),
                     "contract_blocked": blocked(e["vec"]), "zoned": bool(cc["zone"]), "reason": reasons[:80]},
                    "C10 %s: %s; vec=%s (contract: %s): client %s%s%s ASN %s%s asks %s %s via %s -> got=%s eff=%s err=%r; "
                    "profile allowed nets=%s blocked nets=%s allowed ASNs=%s blocked ASNs=%s rules=%s; global nets=%s "
                    "rules=%s" % (
                        e["level"], reasons, vec_key(e["vec"]), "rejected" if blocked(e["vec"]) else "not rejected",
                        cc["addr"], ("%" + cc["zone"]) if cc["zone"] else "",
                        " (sent as v4-mapped)" if cc["mapped"] else "", cc["asn"],
                        "" if cc["asn_known"] else " (no location)", cc["name"], cc["qtype"], cc["via"], e["got"],
                        e["eff"], e["err"], cc["anets"], cc["bnets"], cc["aasns"], cc["basns"], cc["prules"],
                        cc["gnets"], cc["grules"]), e)
    c.assumptions += [
        "abstraction function (subnet membership bit by bit, ASN equality, 20-line matcher for plain-domain, ||domain^, "
        "@@ and $dnstype rules) is part of the trusted base; the concretiser re-checks every case with it",
        "a handler error counts as an answer (ServerBase answers SERVFAIL on handler errors)",
        "upstream, filter storage, query log, billing, rule statistics, DNSDB, GeoIP and the profile database are "
        "recording fakes; rate limiter fake never limits; cache effect observed through the cache's Prometheus metrics",
        "excluded inputs: malformed ECS options (answered FORMERR before the access check, see DESIGN C10; valid ones pointing into another ASN are included), "
        "zoned link-local addresses, CHAOS class, special names of the initial middleware",
        "TLC, SANY, CommunityModules Json",
    ]


if __name__ == "__main__":
    main("C10", run)
