"""C09  Rate limiting is an exact per-subnet sliding window with backoff and allowlist."""
import json
import os
from vlib import Check, read_ndjson, main, Undecided

GOCACHE = "/root/go/pkg/mod/github.com/patrickmn/go-cache@v2.1.1-0.20191004192108-46f407853014+incompatible"


def clock(c, extra=()):
    return c.rewrite_clock(["internal/dnsserver/ratelimit/backoff.go", GOCACHE + "/cache.go"] + list(extra))


def report(c, fails, which):
    for sg, idx, reason in fails:
        e = sg[idx]
        par = sg[0].get("par")
        recent = [(x["t"], x["bucket"], x["kind"], x["extra"], "drop" if x["drop"] else "pass") for x in sg[max(1, idx - 12):idx + 1]]
        c.violation({"kind": "decision", "limiter": which, "observed_drop": e.get("drop"), "written": e.get("written"),
                     "next": e.get("next")},
                    "C09 [%s] event t=%s bucket=%s kind=%s extra=%s observed drop=%s written=%s next=%s is not what the "
                    "sliding-window contract decides; parameters %s; recent events %s" % (
                        which, e.get("t"), e.get("bucket"), e.get("kind"), e.get("extra"), e.get("drop"), e.get("written"),
                        e.get("next"), json.dumps(par), recent),
                    {"segment": sg[:idx + 1], "reason": reason})


def run(c: Check):
    th = c.thorough
    c.tlc_mc("RateLimit", "RateLimit_mc.cfg", name="2 buckets, L=2, I=2, B=2, horizon 7, 5 events")
    c.tlc_mc("RateLimit", "RateLimit_sanity.cfg", expect_violation="ExactWindow",
             name="sanity: ring forgotten when its map entry expires")
    if th:
        c.tlc_mc("RateLimit", "RateLimit_mc_big.cfg", timeout=2400, name="L=3, I=3, Per<I, horizon 10, 7 events")
    behs = c.tlc_sim("RateLimit", "RateLimit_sim.cfg", num=300 if th else 50, depth=70 if th else 50)
    inp = os.path.join(c.scratch, "c09_behs.json")
    json.dump([[{"a": s["a"], "d": s["d"], "s": s["s"], "kind": s["kind"], "extra": s["extra"]} for s in b] for b in behs],
              open(inp, "w"))
    out, _ = c.go_harness("internal/dnsserver/ratelimit", "^TestVerifC09Counter$", rewrites=clock(c),
                          env={"VERIF_SEQLEN": 8 if th else 6})
    ev1 = read_ndjson(out)
    report(c, c.validate_segments("TraceRateLimit", "TraceRateLimit.cfg", ev1, timeout=1800), "counter")
    out, _ = c.go_harness("internal/dnsserver/ratelimit", "^TestVerifC09Backoff$", rewrites=clock(c),
                          env={"VERIF_IN": inp, "VERIF_NRANDOM": 4000 if th else 300})
    ev2 = read_ndjson(out)
    report(c, c.validate_segments("TraceRateLimit", "TraceRateLimit.cfg", ev2, timeout=1800), "backoff")
    ov = clock(c, ["internal/agd/ratelimit.go"])
    out, _ = c.go_harness("internal/dnssvc/internal/ratelimitmw", "^TestVerifC09MW$", rewrites=ov, files=["c09_test.go"],
                          env={"VERIF_NRANDOM": 1500 if th else 150})
    ev3 = read_ndjson(out)
    report(c, c.validate_segments("TraceRateLimit", "TraceRateLimit.cfg", ev3, timeout=1800), "mw")
    drops = {"window": 0}
    for e in ev1 + ev2 + ev3:
        if e["ev"] == "Q":
            c.count_case((e["t"], e["bucket"], e["kind"], e["extra"], e["drop"], e["beh"]), nontrivial=e["drop"])
    nd = sum(1 for e in ev2 if e["ev"] == "Q" and e["drop"] and e["kind"] == "q")
    nprof = sum(1 for e in ev3 if e["ev"] == "Q" and e["fam"] == "prof" and e["drop"])
    if nd < 50 or nprof < 5:
        raise Undecided("vacuous: %d limiter drops, %d profile-limiter drops" % (nd, nprof))
    c.cov["rule"] = ("a case is one decided event (time, bucket, kind, response-size events) in a sequence run on the real "
                     "RequestCounter / Backoff / ratelimitmw under a virtual clock; non-trivial = a drop; distinct by "
                     "(sequence, time, bucket, kind, decision)")
    c.sample([e for e in ev2 if e["ev"] == "Q"][:6])
    c.assumptions += [
        "virtual clock: time.Now in backoff.go, agd/ratelimit.go and patrickmn/go-cache rewritten to VerifNow (fails closed)",
        "the back-off clause of the contract (hit record lives backoff_duration from its first hit) is taken from the code; "
        "the property statement leaves its timing open",
        "a profile's own limiter replaces the global one, including refuse-ANY, for its client subnets",
        "TLC, SANY, CommunityModules Json",
    ]


if __name__ == "__main__":
    main("C09", run)
