#!/bin/bash
# allthorough.sh [seed]: the thorough tier of every claimed check, one after the other
cd "$(dirname "$0")/.."
s=${1:-1}
for p in C01 C02 C03 C04 C05 C06 C07 C08 C09 C10 C11 C12 C13 C14 C15 C16 C17 C18 C19 C20; do
  out=$(VERIF_SEED=$s tools/vcheck $p --tier thorough 2>&1); rc=$?
  echo "seed=$s $p rc=$rc $(echo "$out" | grep -E '^(PASS|FAIL|UNDECIDED|VIOLATION)' | head -2 | tr '\n' ' ' | cut -c1-300)"
done
