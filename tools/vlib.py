#!/usr/bin/env python3
"""Shared machinery of the /verif checks.

One Check object per property run: scratch directory, TLC runs (exhaustive,
simulation, trace validation), Go harness builds against VERIF_REPO with
`go test -overlay`, verdict book-keeping, known findings and the evidence file.

Exit codes of a check: 0 held, 1 violation (with a VIOLATION line), 2 the
machinery could not decide (build failure, time-out, vacuous run, ...).
"""
import hashlib
import json
import os
import re
import shutil
import subprocess
import sys
import tempfile
import time

VERIF = os.path.dirname(os.path.dirname(os.path.abspath(__file__)))
REPO = os.path.abspath(os.environ.get("VERIF_REPO", "/repo"))
SEED = int(os.environ.get("VERIF_SEED", "1") or "1")
TMPBASE = os.environ.get("VERIF_TMP", "/var/tmp")
JAR = "/opt/veriftools/tla/tla2tools.jar:/opt/veriftools/tla/CommunityModules-deps.jar"
NCPU = os.cpu_count() or 4
SPECS = os.path.join(VERIF, "specs")
HARNESS = os.path.join(VERIF, "harness")


class Undecided(Exception):
    """The machinery failed; never a verdict about the code."""


def log(*a):
    print(*a, flush=True)


def sh(cmd, cwd=None, env=None, timeout=None, check=False):
    t0 = time.time()
    try:
        p = subprocess.run(cmd, cwd=cwd, env=env, timeout=timeout, stdout=subprocess.PIPE,
                           stderr=subprocess.STDOUT, text=True, errors="replace")
    except subprocess.TimeoutExpired as e:
        out = e.stdout or ""
        if isinstance(out, bytes):
            out = out.decode("utf-8", "replace")
        raise Undecided("time-out after %ss: %s\n%s" % (timeout, " ".join(cmd[:6]), out[-2000:]))
    if check and p.returncode != 0:
        raise Undecided("command failed (%d): %s\n%s" % (p.returncode, " ".join(cmd[:8]), p.stdout[-4000:]))
    return p.returncode, p.stdout, time.time() - t0


class TLCResult:
    def __init__(self, rc, out, wall):
        self.rc, self.out, self.wall = rc, out, wall
        m = re.findall(r"(\d+) states generated, (\d+) distinct states found, (\d+) states left", out)
        self.generated, self.distinct, self.left = (int(x) for x in m[-1]) if m else (0, 0, 0)
        self.violated = None
        m = re.search(r"Error: Invariant (\S+) is violated", out)
        if m:
            self.violated = m.group(1)
        m = re.search(r"Error: Action property (\S+) is violated", out)
        if m:
            self.violated = m.group(1)
        if "Temporal properties were violated" in out:
            self.violated = "temporal"
        if "Deadlock reached" in out:
            self.violated = "deadlock"
        self.postcondition_failed = bool(re.search(r"[Pp]ost-?condition", out) and "Error" in out) and not self.violated
        self.ok = (rc == 0 and "Model checking completed. No error has been found." in out) or \
                  (rc == 0 and "Finished in" in out and "Error" not in out)
        self.printed = balanced_tuples(out)
        self.diameter = None
        m = re.search(r"The depth of the complete state graph search is (\d+)", out)
        if m:
            self.diameter = int(m.group(1))

    def zero_coverage(self):
        """action/expression locations with count 0 from -coverage output."""
        return re.findall(r"^<(\w+) line (\d+), col \d+ to line \d+, col \d+ of module (\w+)>: 0:0$", self.out, re.M)

    def tuples(self, tag):
        """PrintT(<<"TAG", ...>>) lines as lists of raw strings."""
        res = []
        for body in self.printed:
            parts = split_top(body)
            if parts and parts[0] == '"%s"' % tag:
                res.append([p.strip() for p in parts[1:]])
        return res

    def errtrace(self):
        i = self.out.find("Error:")
        return self.out[i:i + 6000] if i >= 0 else ""


def balanced_tuples(out):
    """Bodies of the <<...>> values TLC printed at the start of a line (TLC
    pretty-prints long tuples over several lines)."""
    res = []
    i = 0
    n = len(out)
    while True:
        j = out.find("<<", i)
        if j < 0:
            break
        if j > 0 and out[j - 1] != "\n":
            i = j + 2
            continue
        depth, k, instr = 0, j, False
        while k < n:
            ch = out[k]
            if instr:
                if ch == "\\":
                    k += 1
                elif ch == '"':
                    instr = False
            elif ch == '"':
                instr = True
            elif out.startswith("<<", k):
                depth += 1
                k += 1
            elif out.startswith(">>", k):
                depth -= 1
                k += 1
                if depth == 0:
                    break
            k += 1
        body = out[j + 2:k - 1]
        res.append(re.sub(r"\s*\n\s*", " ", body).strip())
        i = k + 1
    return res


def split_top(s):
    parts, depth, cur, instr = [], 0, "", False
    i = 0
    while i < len(s):
        c = s[i]
        if instr:
            cur += c
            if c == "\\":
                cur += s[i + 1]
                i += 1
            elif c == '"':
                instr = False
        elif c == '"':
            instr = True
            cur += c
        elif c in "<[({":
            depth += 1
            cur += c
        elif c in ">])}":
            depth -= 1
            cur += c
        elif c == "," and depth == 0:
            parts.append(cur.strip())
            cur = ""
        else:
            cur += c
        i += 1
    if cur.strip():
        parts.append(cur.strip())
    return parts


def tla_unquote(s):
    s = s.strip()
    if s.startswith('"') and s.endswith('"'):
        s = s[1:-1]
    return s.replace('\\"', '"').replace("\\\\", "\\")


class Check:
    def __init__(self, pid, tier, level="model_checking"):
        self.pid, self.tier, self.level = pid, tier, level
        self.t0 = time.time()
        os.makedirs(TMPBASE, exist_ok=True)
        self.scratch = tempfile.mkdtemp(prefix="vf-%s-" % pid, dir=TMPBASE)
        self.cov = {"states": 0, "transitions": 0, "traces_validated_against_impl": 0, "samples": [],
                    "evaluations": 0, "distinct_nontrivial": 0, "rule": "", "tlc_runs": [], "exhaustive": False}
        self.assumptions = []
        self.violations = []     # (signature dict, description, replay object)
        self.known_hit = []
        self.distinct = set()
        self.notes = []
        self.specdir = os.path.join(self.scratch, "specs")
        shutil.copytree(SPECS, self.specdir)
        self.thorough = tier == "thorough"
        self._n_go = 0

    # ------------------------------------------------------------- TLC
    def _tlc(self, args, timeout, heap=None, deque=False):
        md = tempfile.mkdtemp(prefix="md-", dir=self.scratch)
        cmd = ["java", "-XX:+UseParallelGC", "-Xss64m"]
        if heap:
            cmd.append("-Xmx%s" % heap)
        if deque:
            cmd.append("-Dtlc2.tool.queue.IStateQueue=StateDeque")
        cmd += ["-cp", JAR, "tlc2.TLC", "-metadir", md] + args
        rc, out, wall = sh(cmd, cwd=self.specdir, timeout=timeout)
        shutil.rmtree(md, ignore_errors=True)
        return TLCResult(rc, out, wall)

    def tlc_mc(self, module, cfg, workers=None, timeout=900, coverage=False, expect_violation=None,
               count=True, name=None):
        """Exhaustive run of specs/<module>.tla with <cfg>.  Returns TLCResult.

        Without expect_violation the run must complete without error, else
        Undecided (a design-level counter-example is a defect of the model or
        of the design, and is reported by the caller, never silently).
        With expect_violation=<name> the run must report exactly that
        invariant/property as violated (sanity: the model can express the
        defect class)."""
        args = ["-workers", str(workers or min(NCPU, 16)), "-config", cfg]
        if coverage:
            args += ["-coverage", "1"]
        args.append(module)
        r = self._tlc(args, timeout)
        run = {"name": name or cfg, "module": module, "cfg": cfg, "generated": r.generated, "distinct": r.distinct,
               "wall_s": round(r.wall, 1), "result": "ok" if r.ok else ("violated:%s" % r.violated)}
        self.cov["tlc_runs"].append(run)
        if expect_violation:
            if r.violated != expect_violation:
                raise Undecided("sanity config %s: expected violation of %s, got %s\n%s" % (
                    cfg, expect_violation, r.violated, r.out[-3000:]))
            run["result"] = "expected-violation:%s" % r.violated
            return r
        if not r.ok:
            raise Undecided("TLC %s/%s did not pass: violated=%s rc=%s\n%s" % (
                module, cfg, r.violated, r.rc, r.out[-6000:]))
        if r.left != 0:
            raise Undecided("TLC %s/%s left states on queue" % (module, cfg))
        if count:
            self.cov["states"] += r.distinct
            self.cov["transitions"] += r.generated
        if coverage:
            z = [x for x in r.zero_coverage() if x[0] not in ("Init",)]
            if z:
                run["zero_coverage"] = ["%s@%s:%s" % (a, m, l) for a, l, m in z][:20]
        return r

    def tlc_sim(self, module, cfg, num, depth, seed=None, timeout=600):
        """Simulation run that prints behaviours as PrintT(<<"BEH", ToJson(hist)>>);
        returns the list of maximal behaviours (python objects)."""
        args = ["-workers", "1", "-simulate", "num=%d" % num, "-depth", str(depth), "-seed", str(seed or SEED),
                "-config", cfg, module]
        r = self._tlc(args, timeout)
        if r.violated or ("Error:" in r.out and "Finished" not in r.out):
            raise Undecided("TLC simulate %s/%s failed: %s\n%s" % (module, cfg, r.violated, r.out[-4000:]))
        behs = []
        for t in r.tuples("BEH"):
            try:
                behs.append(json.loads(tla_unquote(t[0])))
            except Exception as e:  # noqa
                raise Undecided("cannot parse behaviour: %s: %s" % (e, t[0][:300]))
        # keep maximal ones: drop a behaviour that is a proper prefix of the next
        res = []
        for i, b in enumerate(behs):
            nxt = behs[i + 1] if i + 1 < len(behs) else None
            if nxt is not None and len(nxt) > len(b) and nxt[:len(b)] == b:
                continue
            if b:
                res.append(b)
        self.cov["tlc_runs"].append({"name": cfg, "module": module, "cfg": cfg, "mode": "simulate",
                                     "behaviours": len(res), "wall_s": round(r.wall, 1)})
        return res

    def tlc_trace(self, module, cfg, trace_path, timeout=900, tracefile="trace.ndjson", deque=False, heap=None):
        """Trace validation: copies trace_path to <specdir>/<tracefile>, runs the
        trace spec with one worker.  Returns TLCResult; r.ok means accepted."""
        shutil.copy(trace_path, os.path.join(self.specdir, tracefile))
        r = self._tlc(["-workers", "1", "-config", cfg, module], timeout, deque=deque, heap=heap)
        self.cov["tlc_runs"].append({"name": cfg, "module": module, "cfg": cfg, "mode": "trace",
                                     "generated": r.generated, "distinct": r.distinct, "wall_s": round(r.wall, 1),
                                     "result": "accepted" if r.ok else "rejected"})
        if not r.ok and not r.violated and not r.postcondition_failed and not r.tuples("NONCONF") \
                and not r.tuples("STUCK"):
            raise Undecided("trace TLC run %s/%s failed to run:\n%s" % (module, cfg, r.out[-5000:]))
        return r

    def validate_segments(self, module, cfg, events, is_reset=lambda e: e.get("ev") == "Reset", max_fail=6,
                          timeout=900, **kw):
        """Trace validation of a concatenation of traces (segments start at a
        reset event).  Returns a list of failures [(segment events, index of the
        offending event inside the segment, reason)].  A failing segment is
        removed and the rest re-validated so that every segment is examined."""
        segs, cur = [], []
        for e in events:
            if is_reset(e) and cur:
                segs.append(cur)
                cur = []
            cur.append(e)
        if cur:
            segs.append(cur)
        failures = []
        total = len(segs)
        while segs:
            flat = [e for sg in segs for e in sg]
            path = os.path.join(self.scratch, "trace_in.ndjson")
            write_ndjson(path, flat)
            r = self.tlc_trace(module, cfg, path, timeout=timeout, **kw)
            if r.ok:
                break
            if r.violated:
                ls = re.findall(r"^/\\ l = (\d+)", r.out, re.M)
                if not ls:
                    raise Undecided("invariant %s violated but no l in trace:\n%s" % (r.violated, r.out[-3000:]))
                bad = int(ls[-1]) - 2  # 0-based index of the last consumed event
                reason = "invariant %s violated after this event" % r.violated
            else:
                st = r.tuples("STUCK")
                if not st:
                    raise Undecided("trace rejected without STUCK/invariant:\n%s" % r.out[-3000:])
                bad = int(st[-1][0]) - 1  # diameter d: d-1 events consumed; event index d-1 (0-based) is stuck
                reason = "no spec action explains this event"
            if bad < 0 or bad >= len(flat):
                raise Undecided("bad offending index %d of %d" % (bad, len(flat)))
            acc = 0
            for si, sg in enumerate(segs):
                if bad < acc + len(sg):
                    failures.append((sg, bad - acc, reason))
                    del segs[si]
                    break
                acc += len(sg)
            if len(failures) >= max_fail:
                break
        self.cov["traces_validated_against_impl"] += total - len(failures)
        return failures

    # ------------------------------------------------------------- Go
    def gowork(self):
        p = os.path.join(self.scratch, "go.work")
        if not os.path.exists(p):
            with open(p, "w") as f:
                f.write("go 1.23.4\n\nuse (\n\t%s\n\t%s/internal/dnsserver\n)\n" % (REPO, REPO))
            shutil.copy(os.path.join(REPO, "go.work.sum"), os.path.join(self.scratch, "go.work.sum"))
        return p

    def goenv(self, extra=None):
        env = dict(os.environ)
        env.update({"GOWORK": self.gowork(), "GOFLAGS": "", "GOPROXY": "off", "GOSUMDB": "off",
                    "GOTOOLCHAIN": "local", "VERIF_SEED": str(SEED), "VERIF_TIER": self.tier,
                    "VERIF_REPO": REPO})
        env.update({k: str(v) for k, v in (extra or {}).items()})
        return env

    def go_harness(self, pkg, run, env=None, timeout=900, race=False, rewrites=None, extra_overlay=None,
                   test_timeout="30m", files=None):
        """Build the harness files of /verif/harness/<pkg>/ into REPO/<pkg> via an
        overlay and run `go test -run <run>`.  The harness writes its events to
        $VERIF_OUT (ndjson).  Returns (path of VERIF_OUT, stdout)."""
        self._n_go += 1
        hdir = os.path.join(HARNESS, pkg)
        repl = {}
        for fn in sorted(os.listdir(hdir)):
            if not fn.endswith(".go"):
                continue
            if files is not None and fn not in files:
                continue
            repl[os.path.join(REPO, pkg, "zz_verif_" + fn)] = os.path.join(hdir, fn)
        self._add_helpers(repl, pkg, hdir)
        for src, dst in (rewrites or {}).items():
            repl[src] = dst
        for src, dst in (extra_overlay or {}).items():
            repl[src] = dst
        ov = os.path.join(self.scratch, "overlay%d.json" % self._n_go)
        with open(ov, "w") as f:
            json.dump({"Replace": repl}, f)
        out = os.path.join(self.scratch, "out%d.ndjson" % self._n_go)
        e = self.goenv(env)
        e["VERIF_OUT"] = out
        e["VERIF_SCRATCH"] = self.scratch
        moddir = REPO + "/internal/dnsserver" if pkg.startswith("internal/dnsserver") else REPO
        cmd = ["go", "test", "-tags", "verif", "-vet=off", "-count=1", "-overlay", ov, "-timeout", test_timeout,
               "-run", run]
        if race:
            cmd.append("-race")
        cmd.append("./" + os.path.relpath(os.path.join(REPO, pkg), moddir))
        cmd = netns_wrap(cmd)
        rc, o, wall = sh(cmd, cwd=moddir, env=e, timeout=timeout)
        m = re.search(r"^FAIL\t\S+\t([0-9.]+)s", o, re.M)
        if rc != 0 and m and float(m.group(1)) < 5 and "[build failed]" not in o and "[setup failed]" not in o \
                and "DATA RACE" not in o:
            # a harness that dies within seconds died while setting its laboratory up (a port taken
            # between two binds, ...): one more attempt; a verdict only ever comes from recorded events
            self.notes.append("harness %s -run %s failed after %ss and was started again: %s" % (
                pkg, run, m.group(1), o[-300:].replace("\n", " | ")))
            if os.path.exists(out):
                os.remove(out)
            rc, o, wall = sh(cmd, cwd=moddir, env=e, timeout=timeout)
        if rc != 0:
            if "[build failed]" in o or "[setup failed]" in o:
                raise Undecided("harness build failed for %s:\n%s" % (pkg, o[-5000:]))
            i = o.find("WARNING: DATA RACE")
            race = ("\n--- first data race ---\n" + o[i:i + 5000]) if i >= 0 else ""
            e = Undecided("harness %s -run %s failed (rc %d):\n%s%s" % (pkg, run, rc, o[-3000:], race))
            e.output, e.partial = o, out   # the complete output and the events recorded before the end
            raise e
        if not os.path.exists(out):
            raise Undecided("harness %s -run %s wrote no output (test not matched?)\n%s" % (pkg, run, o[-2000:]))
        return out, o

    def apalache_inductive(self, module, bad_subs, cinit=None, safety="Safety"):
        """Apalache: IndInv of an integer-only module holds initially, is inductive and implies `safety`, for
        unbounded values; the defective variant obtained by the textual substitution bad_subs (old, new) must be
        refuted.  A missing, failing or slow tool is exit 2, never a verdict."""
        import shutil as _sh
        d = os.path.join(self.scratch, "apalache-" + module)
        os.makedirs(d, exist_ok=True)
        src = open(os.path.join(self.specdir, module + ".tla")).read()
        bad = src.replace("MODULE " + module, "MODULE " + module + "Bad")
        if bad_subs[0] not in bad:
            raise Undecided("defective variant of %s: %r not found" % (module, bad_subs[0]))
        bad = bad.replace(bad_subs[0], bad_subs[1])
        open(os.path.join(d, module + ".tla"), "w").write(src)
        open(os.path.join(d, module + "Bad.tla"), "w").write(bad)
        if not _sh.which("apalache-mc"):
            raise Undecided("apalache-mc is not on PATH")

        def ap(mod, init, inv, length):
            cmd = ["apalache-mc", "check", "--init=" + init, "--inv=" + inv, "--length=%d" % length,
                   "--out-dir=" + os.path.join(d, "out")]
            if cinit:
                cmd.append("--cinit=" + cinit)
            try:
                p = subprocess.run(cmd + [mod + ".tla"], cwd=d, stdout=subprocess.PIPE, stderr=subprocess.STDOUT, text=True,
                                   timeout=900)
            except subprocess.TimeoutExpired:
                raise Undecided("apalache-mc timed out on %s %s" % (mod, inv))
            if "EXITCODE: OK" in p.stdout:
                return True
            if "EXITCODE: ERROR (12)" in p.stdout:
                return False
            raise Undecided("apalache-mc failed on %s %s:\n%s" % (mod, inv, p.stdout[-1500:]))
        steps = [(module, "Init", "IndInv", 0, True, "initial states satisfy IndInv"),
                 (module, "IndInit", "IndInv", 1, True, "IndInv is inductive"),
                 (module, "IndInit", safety, 0, True, "IndInv implies " + safety),
                 (module + "Bad", "IndInit", "IndInv", 1, False, "sanity: the defective variant is refuted")]
        for mod, init, inv, length, want, what in steps:
            if ap(mod, init, inv, length) != want:
                raise Undecided("Apalache %s: %s -- expected %s" % (module, what, want))
            self.notes.append("Apalache %s (unbounded integers): %s" % (module, what))
        self.cov["apalache_obligations"] = self.cov.get("apalache_obligations", 0) + len(steps)

    def _add_helpers(self, repl, pkg, hdir):
        """the generated vh helper, once per package name used by the harness
        files (the package itself and/or its external test package)"""
        names = set()
        for fn in list(repl.values()):
            m = re.search(r"^package (\w+)", open(fn).read(), re.M)
            if m:
                names.add(m.group(1))
        if not names:
            raise Undecided("no harness file in %s" % hdir)
        for pkgname in names:
            vh = os.path.join(self.scratch, "vh_%s_test.go" % pkgname)
            with open(vh, "w") as f:
                f.write(open(os.path.join(VERIF, "tools", "vh_test.go.tmpl")).read().replace("PKGNAME", pkgname))
            repl[os.path.join(REPO, pkg, "zz_verif_vh_%s_test.go" % pkgname)] = vh

    def go_test_binary(self, pkg, files=None, rewrites=None, race=False):
        """Compile the test binary of REPO/<pkg> with the harness files overlaid
        (`go test -c`); returns its path.  Used for child processes that are
        killed or straced."""
        self._n_go += 1
        hdir = os.path.join(HARNESS, pkg)
        repl = {}
        for fn in sorted(os.listdir(hdir)):
            if fn.endswith(".go") and (files is None or fn in files):
                repl[os.path.join(REPO, pkg, "zz_verif_" + fn)] = os.path.join(hdir, fn)
        self._add_helpers(repl, pkg, hdir)
        repl.update(rewrites or {})
        ov = os.path.join(self.scratch, "overlay%d.json" % self._n_go)
        with open(ov, "w") as f:
            json.dump({"Replace": repl}, f)
        binp = os.path.join(self.scratch, "testbin%d" % self._n_go)
        moddir = REPO + "/internal/dnsserver" if pkg.startswith("internal/dnsserver") else REPO
        cmd = ["go", "test", "-c", "-o", binp, "-tags", "verif", "-vet=off", "-overlay", ov]
        if race:
            cmd.append("-race")
        cmd.append("./" + os.path.relpath(os.path.join(REPO, pkg), moddir))
        rc, o, _ = sh(cmd, cwd=moddir, env=self.goenv(), timeout=900)
        if rc != 0 or not os.path.exists(binp):
            raise Undecided("cannot build test binary for %s:\n%s" % (pkg, o[-4000:]))
        return binp

    def rewrite_clock(self, relpaths):
        """Generate copies of the listed files (relative to REPO, or absolute for
        module-cache files) in which time.Now/Since/Until go through VerifNow;
        returns the overlay mapping, including the file that declares VerifNow
        in each touched package."""
        repl = {}
        seen_pkgs = {}
        for rp in relpaths:
            src = rp if os.path.isabs(rp) else os.path.join(REPO, rp)
            if not os.path.exists(src):
                raise Undecided("clock rewrite: %s does not exist" % src)
            text = open(src).read()
            new, n = rewrite_time_calls(text)
            if n == 0:
                raise Undecided("clock rewrite: no time.Now/Since/Until in %s" % src)
            dst = os.path.join(self.scratch, "rw_" + hashlib.sha1(src.encode()).hexdigest()[:10] + "_" +
                               os.path.basename(src))
            with open(dst, "w") as f:
                f.write(new)
            repl[src] = dst
            pkgname = re.search(r"^package (\w+)", text, re.M).group(1)
            seen_pkgs[os.path.dirname(src)] = pkgname
        for d, pkgname in seen_pkgs.items():
            if not d.startswith(REPO + os.sep):
                # module-cache package: new files are not picked up there, so the
                # declaration goes into the first rewritten file of the package
                first = sorted(x for x in repl if os.path.dirname(x) == d)[0]
                with open(repl[first], "a") as f:
                    f.write("\n// VerifNow is the clock used by the rewritten files.\nvar VerifNow = time.Now\n")
                continue
            dst = os.path.join(self.scratch, "clk_" + hashlib.sha1(d.encode()).hexdigest()[:10] + ".go")
            with open(dst, "w") as f:
                f.write("package %s\n\nimport \"time\"\n\n// VerifNow is the clock used by the rewritten files.\n"
                        "var VerifNow = time.Now\n" % pkgname)
            repl[os.path.join(d, "zz_verif_clock.go")] = dst
        return repl

    def rewrite_sub(self, relpath, subs, overlay=None, decl=None):
        """Regex rewrites of one source file (relative to REPO or absolute),
        chained on top of an earlier rewrite of the same file in `overlay`.
        subs: list of (pattern, replacement, min_count).  decl: Go source of an
        extra non-test file added to the same package (declares the hook
        variables).  Returns the updated overlay mapping."""
        overlay = dict(overlay or {})
        src = relpath if os.path.isabs(relpath) else os.path.join(REPO, relpath)
        cur = overlay.get(src, src)
        if not os.path.exists(cur):
            raise Undecided("rewrite: %s does not exist" % cur)
        text = open(cur).read()
        for pat, rep, mn in subs:
            text, n = re.subn(pat, rep, text, flags=re.M)
            if n < mn:
                raise Undecided("rewrite of %s: pattern %r matched %d times, expected >= %d (source shape changed)"
                                % (relpath, pat, n, mn))
        dst = os.path.join(self.scratch, "rs_" + hashlib.sha1(src.encode()).hexdigest()[:10] + "_" +
                           os.path.basename(src))
        with open(dst, "w") as f:
            f.write(text)
        overlay[src] = dst
        if decl:
            d = os.path.join(self.scratch, "decl_" + hashlib.sha1((src + decl).encode()).hexdigest()[:10] + ".go")
            with open(d, "w") as f:
                f.write(decl)
            overlay[os.path.join(os.path.dirname(src), "zz_verif_hooks.go")] = d
        return overlay

    # ------------------------------------------------------------- verdicts
    def sample(self, obj, cap=6):
        if len(self.cov["samples"]) < cap:
            self.cov["samples"].append(obj)

    def count_case(self, key, nontrivial=True):
        self.cov["evaluations"] += 1
        if nontrivial:
            self.distinct.add(hashlib.sha1(json.dumps(key, sort_keys=True).encode()).hexdigest())

    def violation(self, sig, desc, replay):
        """sig: dict identifying the failing case (matched against known findings)."""
        self.violations.append((sig, desc, replay))

    def finish(self):
        self.cov["distinct_nontrivial"] = len(self.distinct)
        known = load_known(self.pid)
        new, rc = [], 0
        os.makedirs(os.path.join(VERIF, "evidence", "replay"), exist_ok=True)
        printed_known = set()
        for sig, desc, replay in self.violations:
            k = match_known(known, sig)
            if k is not None:
                if k["id"] not in printed_known:
                    log("KNOWN-FINDING: property=%s %s (%s)" % (self.pid, k["what"], k["id"]))
                    printed_known.add(k["id"])
                continue
            new.append((sig, desc, replay))
        for fn in os.listdir(os.path.join(VERIF, "evidence", "replay")):
            if fn.startswith("%s-%d-" % (self.pid, SEED)):
                os.remove(os.path.join(VERIF, "evidence", "replay", fn))
        for i, (sig, desc, replay) in enumerate(new[:20]):
            path = os.path.join(VERIF, "evidence", "replay", "%s-%d-%d.json" % (self.pid, SEED, i))
            with open(path, "w") as f:
                json.dump({"property": self.pid, "signature": sig, "description": desc, "replay": replay,
                           "seed": SEED, "tier": self.tier}, f, indent=1, default=str)
            log("VIOLATION property=%s replay=%s" % (self.pid, path))
            log("  " + desc[:600])
            rc = 1
        ev = {"property_id": self.pid, "tier": self.tier, "seed": SEED, "level": self.level,
              "coverage": self.cov, "assumptions": self.assumptions, "wall_s": round(time.time() - self.t0, 1),
              "violations": len(new), "known_findings_seen": sorted(printed_known), "notes": self.notes,
              "repo": REPO}
        if not self.cov["samples"]:
            self.cov["samples"].append("no sample recorded")
        # (a run against another tree -- VERIF_REPO, used for seeded changes -- must not overwrite the
        # evidence of the tree under test)
        evdir = os.path.join(VERIF, "evidence") if os.path.realpath(REPO) == "/repo" else os.path.join(
            VERIF, "evidence", "replay", "other-tree")
        os.makedirs(evdir, exist_ok=True)
        with open(os.path.join(evdir, "%s.json" % self.pid), "w") as f:
            json.dump(ev, f, indent=1, default=str)
        if os.environ.get("VERIF_KEEP"):
            log("scratch kept: %s" % self.scratch)
        else:
            shutil.rmtree(self.scratch, ignore_errors=True)
        log("%s %s tier=%s seed=%d states=%d traces=%d evals=%d distinct=%d wall=%.0fs" % (
            "FAIL" if rc else "PASS", self.pid, self.tier, SEED, self.cov["states"],
            self.cov["traces_validated_against_impl"], self.cov["evaluations"], len(self.distinct),
            time.time() - self.t0))
        return rc

    def abort(self, e):
        log("UNDECIDED property=%s: %s" % (self.pid, e))
        if not os.environ.get("VERIF_KEEP"):
            shutil.rmtree(self.scratch, ignore_errors=True)
        return 2


_NETNS = None


def netns_wrap(cmd):
    """Run cmd in a private network namespace with only a loopback interface, when the
    system allows it: the servers under test listen on 127.0.0.1:0 with SO_REUSEPORT,
    so concurrent jobs on the same machine (other checks, the repository's own tests)
    can otherwise collide with or even share their ports.  VERIF_NETNS=0 disables it."""
    global _NETNS
    if os.environ.get("VERIF_NETNS", "1") == "0":
        return cmd
    if _NETNS is None:
        try:
            p = subprocess.run(["unshare", "-n", "sh", "-c", "ip link set lo up && ip addr show lo | grep -q 127.0.0.1"],
                               stdout=subprocess.DEVNULL, stderr=subprocess.DEVNULL, timeout=20)
            _NETNS = p.returncode == 0
        except Exception:
            _NETNS = False
    if not _NETNS:
        return cmd
    return ["unshare", "-n", "sh", "-c", 'ip link set lo up && exec "$@"', "sh"] + list(cmd)


def rewrite_time_calls(text):
    """time.Now() -> VerifNow(); time.Since(x) -> VerifNow().Sub(x); time.Until(x) -> (x).Sub(VerifNow())."""
    n = 0
    out = []
    i = 0
    pat = re.compile(r"\btime\.(Now|Since|Until)\(")
    while True:
        m = pat.search(text, i)
        if not m:
            out.append(text[i:])
            break
        # skip matches inside line comments
        ls = text.rfind("\n", 0, m.start()) + 1
        if "//" in text[ls:m.start()]:
            out.append(text[i:m.end()])
            i = m.end()
            continue
        out.append(text[i:m.start()])
        j = m.end()
        depth = 1
        while depth:
            c = text[j]
            if c == "(":
                depth += 1
            elif c == ")":
                depth -= 1
            j += 1
        arg = text[m.end():j - 1]
        kind = m.group(1)
        if kind == "Now":
            out.append("VerifNow()")
        elif kind == "Since":
            out.append("VerifNow().Sub(%s)" % arg)
        else:
            out.append("(%s).Sub(VerifNow())" % arg)
        n += 1
        i = j
    return "".join(out), n


def load_known(pid):
    p = os.path.join(VERIF, "known_findings.json")
    if not os.path.exists(p):
        return []
    d = json.load(open(p))
    return [k for k in d.get("findings", []) if k.get("property") == pid]


def match_known(known, sig):
    for k in known:
        m = k.get("match", {})
        if m and all(sig.get(a) == b for a, b in m.items()):
            return k
    return None


def read_ndjson(path):
    res = []
    with open(path) as f:
        for line in f:
            line = line.strip()
            if line:
                res.append(json.loads(line))
    return res


def denull(o):
    """TLC's Json module cannot read null: replace it by the string "null"."""
    if o is None:
        return "null"
    if isinstance(o, dict):
        return {k: denull(v) for k, v in o.items()}
    if isinstance(o, list):
        return [denull(v) for v in o]
    # TLC integers are 32-bit: a larger value (e.g. an underflowed uint32 TTL) would wrap silently and
    # could satisfy a bound it grossly violates; saturate instead
    if isinstance(o, bool):
        return o
    if isinstance(o, int):
        return max(-2147483647, min(2147483647, o))
    if isinstance(o, float):
        return max(-2147483647, min(2147483647, int(o)))
    return o


def write_ndjson(path, objs):
    with open(path, "w") as f:
        for o in objs:
            f.write(json.dumps(denull(o), sort_keys=True) + "\n")


def main(pid, fn, level="model_checking"):
    import argparse
    ap = argparse.ArgumentParser()
    ap.add_argument("--tier", default=os.environ.get("VERIF_TIER", "quick"))
    ap.add_argument("--replay", default=None)
    a = ap.parse_args(sys.argv[2:] if len(sys.argv) > 1 and sys.argv[1] == pid else sys.argv[1:])
    c = Check(pid, a.tier, level)
    c.replay_path = a.replay
    try:
        fn(c)
        rc = c.finish()
    except Undecided as e:
        rc = c.abort(e)
    except SystemExit:
        raise
    except BaseException as e:  # a fault of the machinery is never a verdict about the code
        import traceback
        rc = c.abort(Undecided("internal error of the check: %s\n%s" % (e, traceback.format_exc()[-3000:])))
    sys.exit(rc)
